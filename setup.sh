#!/bin/sh
# Builds every lane of the harness from files on disk only (offline).
set -e
cd "$(dirname "$0")"
export CARGO_NET_OFFLINE=true
./check --build dbg,generic,rel,native,asan,miri,tsan,nd
