#!/bin/bash
# usage: tools/mutlist.sh <file with lines "seed-name ID [ID...]">
cd /verif
while read -r name ids; do
  [ -z "$name" ] && continue
  LINES_MAX=2 tools/mutrun.sh "$name" "seeded/$name/patch.diff" $ids
done < "$1"
