#!/usr/bin/env python3
"""Regenerates MANIFEST.json's checks from lib/propcfg.py (levels, commands) and the texts below."""
import json, os, sys
V = os.path.dirname(os.path.dirname(os.path.abspath(__file__)))
sys.path.insert(0, os.path.join(V, "lib"))
from propcfg import PROPS
TEXT = {
 "C01": ("Seeded random API histories (plus histories started from recipe states) executed on the real HashMap and step-for-step on an association-list model, with the structure validator after every call; held on the histories produced, under both group scanners.", "runtime monitoring: reference-model oracle + invariant hook after every call"),
 "C02": ("The safe API driven over the whole element menu with leak operations under four differently instrumented builds (debug assertions + ub_checks, portable scanner, ASan, Miri) with checking allocator, element registry and invariant hooks as oracles.", "sanitizers (ASan, Miri, ub_checks) + checking-allocator/registry monitors over random safe programs"),
 "C03": ("Every exit path of every collection, cut at every consumption point, with the drop/allocation ledgers evaluated offline after the collection is gone.", "offline exactly-once/conservation checker over element and allocation event logs"),
 "C04": ("Systematic fault injection: every callback class x every invocation index of sampled (state, operation) pairs, post-conditions of the statement checked after catch_unwind.", "fault enumeration with callback fuses + invariant hooks + ledgers"),
 "C05": ("All drivers under call-dependent random Hash and lying Eq; only the safety subset is judged.", "sanitizers + safety-subset invariant monitors under chaos Hash/Eq"),
 "C06": ("Random explicit-hash histories on HashTable against a multiset model with arbitrary hash collisions and duplicates.", "runtime monitoring: multiset reference model + invariant hook after every call"),
 "C07": ("Set algebra and point operations compared with BTreeSet over pairs of sets realised by independent histories.", "runtime monitoring: reference-model oracle (BTreeSet) over differently built set pairs"),
 "C08": ("Each inequality of the capacity contract observed at the API together with the allocator ledger, over recipe states of all three collections and many element layouts.", "API + allocator-ledger monitor of the stated inequalities"),
 "C09": ("Every iterator driven at every prefix in four modes with exact-length checks at every step and multiset comparison.", "online checker of iterator protocol (size_hint/len/fused) + multiset oracle"),
 "C10": ("retain/extract_if/drain over all subsets (small) and every early-drop class, with predicate-call logs and allocator ledger.", "event-log checker (predicate calls, yields, survivors) + ledger"),
 "C11": ("clone/clone_from over ordered pairs of states with clone/drop counts from the registry, independence checks and == over differently built equal collections.", "reference comparison + clone/drop ledger"),
 "C12": ("Enumeration of (state, additional, allocator refusal) with the refusing/capping allocator as fault injector and ledger as oracle.", "fault enumeration with a refusing checking allocator"),
 "C13": ("Long bounded-live-size churn with the allocation bound checked at every step and termination restated as a bound on equality callbacks.", "online monitor of allocation size and probe work during stress workloads"),
 "C14": ("Entry-style call chains started exactly on full / tombstone-saturated / unallocated / random-layout states, compared with the model.", "runtime monitoring: reference-model oracle on targeted states"),
 "C15": ("Multi-key mutable borrows with duplicates, absent keys, colliding keys and unlawful closures; address-disjointness monitor plus Miri's aliasing model.", "address-overlap monitor + Miri borrow tracker"),
 "C16": ("Partial: the sending/sharing clause, and of the borrow clause only 'mutable access needs a mutable borrow of the collection'. Marker-typed keys, values, hashers and allocators report the thread of every access; every public type is offered to a second thread by value and by reference, the compiler decides from X: Send / X: Sync whether the offer is taken, and the monitor flags any access the marker kind forbids. Methods handing out mutable access are additionally called through a shared reference (a fallback is selected unless they accept &self) and aliasing with live shared references is observed by address. Variance and borrow lifetimes cannot be observed in an execution and are not claimed.", "thread-confinement and aliasing monitors over compiler-resolved offers (inherent method preferred over blanket fallback)"),
 "C17": ("The real arithmetic functions compared with u128 reference arithmetic over exhaustive and boundary ranges under both group widths.", "differential monitor of pure functions through hooks (exhaustive sub-ranges)"),
 "C18": ("Cross-lane transcript comparison of identical seeded histories plus primitive-by-primitive comparison with the byte-wise definition.", "differential execution of two builds + primitive oracle"),
 "C19": ("Instrumented rayon consumers under real pools with injected delays, exhaustive small split trees through a hook, TSan and Miri race detection.", "offline exactly-once checker over consumer event logs + race detectors (TSan, Miri)"),
 "C20": ("In-harness serde (de)serializer with programmable hints and failures; allocator ledger bounds the pre-reservation.", "fault-injecting deserializer + allocator/registry ledgers"),
}
m = json.load(open(os.path.join(V, "MANIFEST.json")))
checks = []
for pid in sorted(PROPS):
    text, tech = TEXT[pid]
    cfg = PROPS[pid]
    lanes_q = sorted({x["lane"] for x in cfg["lanes"]["quick"]})
    lanes_t = sorted({x["lane"] for x in cfg["lanes"]["thorough"]})
    checks.append({
        "property_id": pid,
        "quick_cmd": "./check %s quick" % pid,
        "thorough_cmd": "./check %s thorough" % pid,
        "evidence_file": "evidence/%s.json" % pid,
        "replay_cmd_template": "./check %s --replay {path}" % pid,
        "engine": "hbverif",
        "level_claimed": {"category": cfg["level"], "text": text + " Held on the executions produced; not a proof.", "design_ref": "DESIGN.md section 8, " + pid},
        "level_note": "lanes quick: %s; thorough: %s. Trusts the harness models/validator/ledgers and the sanitizer runtimes; samples the quantified space (see evidence rule)." % (", ".join(lanes_q), ", ".join(lanes_t)),
        "technique": tech,
    })
m["checks"] = checks
for e in m["engines"]:
    e["serves_properties"] = sorted(PROPS)
json.dump(m, open(os.path.join(V, "MANIFEST.json"), "w"), indent=1)
print("checks:", len(checks))
