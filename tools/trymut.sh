#!/bin/bash
# usage: tools/trymut.sh <patch.diff> <ID> [ID...]   — applies a seeded change to /repo, runs the quick checks, always reverts.
set -u
patch="$(readlink -f "$1")"; shift
cd /repo || exit 2
if [ -n "$(git status --porcelain -- src Cargo.toml)" ]; then echo "repo not clean"; exit 2; fi
git apply "$patch" || { echo "patch does not apply"; exit 2; }
trap 'git -C /repo checkout -- . ' EXIT
cd /verif
for id in "$@"; do
  start=$(date +%s)
  out=$(./check "$id" "${TIER:-quick}" 2>&1); rc=$?
  echo "== $id rc=$rc ($(( $(date +%s) - start ))s)"
  echo "$out" | grep -E "VIOLATION|detail:|INCONCLUSIVE|KNOWN|held" | head -${LINES_MAX:-6} | cut -c1-600
done
