#!/usr/bin/env python3
"""Self-test of the verdict classification in ./check (run after touching classify or CRASH_PATTERNS)."""
import importlib.machinery, importlib.util, os, sys
V = os.path.dirname(os.path.dirname(os.path.abspath(__file__)))
loader = importlib.machinery.SourceFileLoader("hbcheck", os.path.join(V, "check"))
spec = importlib.util.spec_from_loader("hbcheck", loader)
m = importlib.util.module_from_spec(spec)
sys.argv = ["check"]
loader.exec_module(m)
UBCHK = "thread 'main' panicked at /repo/src/raw/mod.rs:217:22:\nunsafe precondition(s) violated: Layout::from_size_align_unchecked requires ...\n\nThis indicates a bug in the program. This Undefined Behavior check is optional, and cannot be relied on for safety.\n"
CASES = [
    ("dbg", 0, "", False, "held"),
    ("dbg", 3, "HBV-VIOLATION property=C01 replay=/x\n", False, "violated"),
    ("dbg", 4, "HBV-HARNESS-ERROR scenario 3 panicked in harness code", False, "inconclusive"),
    ("dbg", 134, UBCHK, False, "violated"),
    ("generic", -6, UBCHK, False, "violated"),
    ("dbg", 101, "thread 'main' panicked at /repo/src/raw/mod.rs:212:27:\nattempt to add with overflow\n", False, "violated"),
    ("dbg", 101, "thread 'main' panicked at /tmp/mut/X/repo/src/raw/mod.rs:212:27:\nattempt to add with overflow\n", False, "violated"),
    ("dbg", 101, "thread 'main' panicked at src/props/c17.rs:10:5:\nindex out of bounds\n", False, "inconclusive"),
    ("asan", 134, "==123==ERROR: AddressSanitizer: heap-buffer-overflow on address ...", False, "violated"),
    ("tsan", 66, "WARNING: ThreadSanitizer: data race (pid=1)", False, "violated"),
    ("miri", 1, "error: Undefined Behavior: out-of-bounds pointer use\n --> /repo/src/raw/mod.rs:300:9\n", False, "violated"),
    ("miri", 1, "error: Undefined Behavior: trying to retag from <1> ...\n --> /root/.cargo/registry/src/x/crossbeam-epoch-0.9.21/src/atomic.rs:204:11\n  = note: inside rayon_core::registry\n", False, "inconclusive"),
    ("miri", 1, "error: Undefined Behavior: Data race detected between (1) ... \n --> /root/.cargo/registry/src/x/rayon-core/src/job.rs:1:1\n = note: inside `hashbrown::raw::RawIterRange::<T>::split` at /repo/src/raw/mod.rs:3500:1\n", False, "violated"),
    ("rel", -11, "", False, "violated"),
    ("rel", -6, "memory allocation of 9223372036854775796 bytes failed\n", False, "violated"),
    ("dbg", -6, "something aborted without a known reason", False, "inconclusive"),
    ("dbg", -9, "", True, "inconclusive"),
    ("dbg", 137, "", False, "inconclusive"),
]
bad = 0
for lane, rc, text, to, want in CASES:
    got, kind = m.classify(lane, rc, text, to)
    ok = got == want
    bad += not ok
    print("%-4s %-8s rc=%-4s -> %-12s (%s)%s" % ("ok" if ok else "BAD", lane, rc, got, kind, "" if ok else "  expected " + want))
sys.exit(1 if bad else 0)
