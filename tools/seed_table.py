#!/usr/bin/env python3
"""Reads mutation-run logs (tools/mutrun.sh output) and updates seeded/*/meta.json `detected_by`;
prints the seed-vs-check table for DESIGN.md section 11."""
import json, os, re, sys, glob
res = {}
for path in sys.argv[1:]:
    cur = None
    for line in open(path):
        m = re.match(r"== (\S+) (C\d+) rc=(\d+) \((\d+)s\)", line)
        if m:
            cur = (m.group(1), m.group(2))
            res.setdefault(m.group(1), {})[m.group(2)] = {"rc": int(m.group(3)), "secs": int(m.group(4)), "detail": ""}
            continue
        if cur and "detail:" in line and not res[cur[0]][cur[1]]["detail"]:
            res[cur[0]][cur[1]]["detail"] = line.split("detail:", 1)[1].strip()[:260]
rows = []
for d in sorted(glob.glob("/verif/seeded/*")):
    name = os.path.basename(d)
    mp = os.path.join(d, "meta.json")
    if not os.path.exists(mp):
        continue
    meta = json.load(open(mp))
    det = meta.get("detected_by", {})
    for cid, r in res.get(name, {}).items():
        if r["rc"] == 1:
            det[cid] = "quick (seed 1, %d s incl. build): %s" % (r["secs"], r["detail"] or "violation reported")
        elif r["rc"] == 0:
            det[cid] = "NOT detected by the quick tier (seed 1)"
        else:
            det[cid] = "inconclusive run (rc %d)" % r["rc"]
    meta["detected_by"] = det
    meta["how_checked"] = "tools/mutrun.sh: scratch worktree of /repo with the patch applied, scratch copy of the harness path-depending on it, ./check <ID> quick; /repo itself untouched"
    json.dump(meta, open(mp, "w"), indent=1)
    caught = [c for c, v in det.items() if v.startswith("quick")]
    missed = [c for c, v in det.items() if v.startswith("NOT")]
    rows.append((name, meta.get("property", ""), meta.get("change", "")[:110], ", ".join(sorted(caught)) or "—", ", ".join(sorted(missed)) or "—"))
print("| seed | breaks | change | caught by (quick) | run but silent |")
print("|---|---|---|---|---|")
for r in rows:
    print("| %s | %s | %s | %s | %s |" % r)
