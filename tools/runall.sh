#!/bin/bash
# usage: tools/runall.sh [quick|thorough] [IDs...]   — runs the registered checks one after the other on /repo as it is.
tier="${1:-quick}"; shift
cd /verif
ids="$@"; [ -z "$ids" ] && ids=$(python3 -c "import sys; sys.path.insert(0,'lib'); import propcfg; print(' '.join(sorted(propcfg.PROPS)))")
for id in $ids; do
  s=$(date +%s); out=$(./check $id $tier 2>&1); rc=$?
  echo "$id rc=$rc $(( $(date +%s)-s ))s :: $(echo "$out" | grep -E 'VIOLATION|INCONCLUSIVE|held|KNOWN' | head -3 | tr '\n' ' ' | cut -c1-400)"
done
