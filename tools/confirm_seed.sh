#!/bin/bash
# usage: confirm_seed.sh <ID> <A|B>  — confirms a seeded change in its scratch worktree /tmp/wt/<ID>:
#   with the patch: builds, existing suite passes, demo fails; without the patch: demo passes.
id="$1"; v="$2"; wt=${WT_ROOT:-/tmp/wt}/$id; out=${OUT_ROOT:-/tmp/seeded-out}/$id
feat="${FEATURES:-}"
cd "$wt" || exit 2
git checkout -q -- . ; rm -f tests/seeded_demo.rs
[ -f "$out/patch_$v.diff" ] || { echo "RESULT $id $v no-patch"; exit 0; }
git apply "$out/patch_$v.diff" || { echo "RESULT $id $v patch-does-not-apply"; exit 0; }
b1=$(cargo build --offline 2>&1 | grep -c "^warning\|^error")
b2=$(cargo build --offline --features rayon,serde,rustc-internal-api 2>&1 | grep -c "^error")
suite=$(cargo test --workspace --offline 2>&1 | grep -E "^test result" | awk '{p+=$4; f+=$6} END {print p"/"f}')
cp "$out/demo_$v.rs" tests/seeded_demo.rs
with=$(cargo test --offline $feat --test seeded_demo 2>&1 | grep -E "^test result" | awk '{p+=$4; f+=$6} END {print p"/"f}')
[ -z "$with" ] && with="crash-or-build-fail"
git checkout -q -- src
without=$(cargo test --offline $feat --test seeded_demo 2>&1 | grep -E "^test result" | awk '{p+=$4; f+=$6} END {print p"/"f}')
rm -f tests/seeded_demo.rs
echo "RESULT $id $v build_warn=$b1 build_feat_err=$b2 suite_pass/fail=$suite demo_with=$with demo_without=$without"
