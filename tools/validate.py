#!/usr/bin/env python3
"""Validates MANIFEST.json and every evidence file against the schemas (uses the tooling venv's jsonschema)."""
import json, glob, sys
import jsonschema
ok = True
m = json.load(open('/verif/MANIFEST.json'))
jsonschema.validate(m, json.load(open('/root/.vp/MANIFEST.schema.json')))
print('manifest valid:', len(m['checks']), 'checks')
es = json.load(open('/root/.vp/EVIDENCE.schema.json'))
for c in m['checks']:
    p = '/verif/' + c['evidence_file']
    try:
        e = json.load(open(p)); jsonschema.validate(e, es)
        assert e['level'] == c['level_claimed']['category'], 'level mismatch'
        print('ok  ', p, e['tier'], e['coverage']['evaluations'], e['coverage']['distinct_nontrivial'], 'viol', e.get('violations'))
    except Exception as ex:
        ok = False; print('BAD ', p, str(ex)[:200])
sys.exit(0 if ok else 1)
