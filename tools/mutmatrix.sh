#!/bin/bash
# Runs every seeded change against the checks that should notice it (scratch copies; /repo untouched).
cd /verif
while read -r name ids; do
  [ -z "$name" ] && continue
  LINES_MAX=2 tools/mutrun.sh "$name" "seeded/$name/patch.diff" $ids
done <<'L'
C01-A C01 C06 C14
C01-B C01 C06
C02-A C04 C03
C02-B C02 C03
C03-A C04
C03-B C03 C08
C04-A C04
C04-B C04 C02
C05-A C05 C15
C06-A C06 C01
C06-B C06 C01
C07-A C07
C07-B C07
C08-A C08
C08-B C08 C03
C09-A C09
C10-A C10 C03 C02
C10-B C10 C03
C11-A C11
C11-B C11
C12-A C12 C17
C12-B C12
C13-A C13 C01
C13-B C13
C14-A C14 C01
C14-B C14 C01
C15-A C15
C15-B C15
C17-A C17 C02
C17-B C17 C12
C18-A C18 C01
C19-A C19
C19-B C19
C20-A C20
C20-B C20
M-26-F1-regression C04 C02 C05
L
