#!/usr/bin/env python3
"""Imports confirmed seeded changes from /tmp/seeded-out into /verif/seeded/<prop>-<variant>/."""
import json, os, re, shutil, sys
SUMMARY = {
 "C05-G": ("rehash_in_place unwind guard: items -= 1 moved inside `if let Some(drop)` (a partial re-introduction of F1)", "a Hash/BuildHasher panic during an in-place rehash of a table whose element type has no drop glue: len() keeps counting the lost elements"),
 "C07-G": ("HashSet::is_subset gains a strategy for a huge but nearly empty receiver that counts other.iter().take(n).filter(..) instead of .filter(..).take(n)", "a receiver with capacity > 4096 and >= 64x |other| that is a strict subset: reported as not a subset"),
 "C08-G": ("Extend for an empty map reserves the iterator's UPPER size_hint (via try_reserve) instead of the lower bound", "an empty but allocated map/set refilled through extend from an iterator whose upper hint exceeds the capacity (filter, skip_while): it reallocates although the keys fit"),
 "C11-G": ("clone_from_impl sends tables of >= 2^27 buckets to a blocked copy that never writes the trailing mirror group", "clone()/clone_from of a table of >= 2^27 buckets with an element whose probe wrapped around the table end"),
 "C12-G": ("the private Global::allocate fallback (builds WITHOUT the allocator-api2 feature) calls handle_alloc_error on a null allocation instead of returning Err", "hashbrown built with --no-default-features and a real refusal by the global allocator: try_reserve aborts instead of returning AllocError"),
 "C15-G": ("get_many_mut / get_many_unchecked_mut of RawTable and HashTable return references with a lifetime that is not tied to &mut self", "lifetime only: two calls for the same key compile and yield two live &mut (a program the correct crate rejects with E0499)"),
 "C17-G": ("calculate_layout_for checks len > isize::MAX instead of isize::MAX - (ctrl_align - 1)", "element sizes 2^61-11..2^61-8 with 4 buckets (or 2^60-5/2^60-4 with 8): a layout whose padded size exceeds isize::MAX is produced"),
 "C18-G": ("erase gains a 'last element' fast path, but items -= 1 was hoisted above its `items == 1` guard", "removing an element when exactly one other remains that was displaced past a still-full probe window containing the removed slot; whether the window is full depends on the group width"),
 "C20-G": ("MapVisitor gains visit_seq (maps written as sequences of pairs) that preallocates with the raw size_hint", "a deserializer that answers deserialize_map with visit_seq and a lying length"),
 "C09-G": ("fold_impl hands off to a new fold_wide when >= 8 MiB of control bytes lie ahead; its line_is_vacant helper never tests the last group of a 64-byte line", "fold/for_each/count on the borrowing iterators of a sparse table of >= 2^24 buckets: about a quarter of the elements are not visited"),
 "C01-G": ("rehash_in_place swaps buckets through a hand-rolled 256-byte block buffer whose remainder is swapped at offset 0", "element types larger than 256 bytes, a tombstone-saturated table at most half full and a probe sequence that wraps (the swap branch of the in-place rehash)"),
 "C02-G": ("RawTable::get_many_mut compares bucket pointers only when the two lookups' hashes are equal", "two requests with different hashes that resolve to one bucket (HashTable closures, or a lookup type whose Hash is finer than its Equivalent)"),
 "C02-H": ("RawDrain::iter() (behind Debug for Drain) returns the table's iterator instead of a clone of the drain's own", "Debug-formatting a partially consumed Drain: the user's Debug impl is handed slots whose elements were already moved out"),
 "C03-G": ("RawDrain keeps the table in place (pointer + reset in Drop) instead of moving it out", "a Drain leaked with mem::forget after yielding elements: the collection still holds the moved-out elements and drops them again"),
 "C04-G": ("RawTable::clone_from with different bucket counts swaps the new table in first and drops the old elements afterwards from a guard", "a Drop panic of an old element during clone_from between maps with differently seeded hashers: the target holds the source's layout but keeps its own hasher"),
 "C06-G": ("RawDrain drains in place with items = 0 up front", "a leaked Drain of a non-empty table, then any hash lookup: len() is 0 but find/iter_hash still return every old element"),
 "C10-G": ("clear_no_drop for control arrays >= 8 MiB (2^23 buckets) that are < 1/64 used resets only the groups in use and forgets the trailing mirror bytes", "drain/clear of a sparse table of >= 2^23 buckets with an element in the first 16 buckets, then a wrap-around probe with a matching tag"),
 "C13-G": ("reserve_rehash_inner fast path for items == 0: allocates a fresh table of capacity max(new_items, full_capacity + 1)", "fill to exactly the capacity, remove everything (tombstones), fill again: the allocation doubles every round"),
 "C14-G": ("RawVacantEntryMut::insert / RawEntryMut::or_insert reuse the hash cached from the lookup instead of hashing the inserted key", "a vacant raw entry filled with a key other than the probed one: stored under the wrong hash, never found again"),
 "C19-G": ("ptr::eq identity fast path in HashMap::par_eq (and HashSet::par_eq)", "m.par_eq(&m) on a map holding a value that is not equal to itself"),
 "C19-H": ("HashSet::par_eq uses par_is_subset alone for sets of >= 4096 elements (length equality lost)", "a receiver of >= 4096 elements that is a strict subset of the argument"),
 "C16-A": ("unsafe impl Send/Sync for hash_table::IterHash / IterHashMut with T: Send => Send", "IterHash over Send-but-not-Sync elements (Cell) moved to another thread while the table stays behind"),
 "C16-B": ("IterHashMut<'a, T> wraps IterHash<'a, T> (covariant in T) while still yielding &'a mut T", "variance: a HashTable<&'static str> written through iter_hash_mut with a shorter-lived reference (compiles only with the change)"),
 "C05-E": ("HashSet ^= &HashSet looks the item up without reserving first and turns the 'found' arm of the second, reserving search into unreachable_unchecked", "broken hashing only: a set at capacity holding an element whose hash changed since insertion (found after the rehash that reserve(1) performs), or an Eq that flips between the two comparisons"),
 "C05-F": ("HashSet::get_or_insert_with does a reservation-free lookup first and makes the 'found' arm of find_or_find_insert_slot unreachable_unchecked", "broken Eq only: a call-dependent Eq that answers differently in the two searches"),
 "C07-E": ("HashSet::clone_from clones only the raw table and no longer copies the source's BuildHasher", "HashSet::clone_from (not clone, not HashMap::clone_from) between sets whose hasher instances carry different state, then any lookup or set relation on the destination"),
 "C08-E": ("reserve_rehash_inner prefers the in-place rehash for tables of >= 2^20 buckets whenever tombstones exist and len+additional <= bucket_mask", "a table of >= 2^20 buckets with tombstones and reserve(n) with 7/8*buckets < len+n <= buckets: capacity() stays below len+n"),
 "C11-E": ("ptr::eq identity fast path in HashMap::eq (and HashSet::eq)", "m == m on the very same map object holding a value whose PartialEq is not reflexive"),
 "C12-E": ("calculate_layout_for: the checked_add of ctrl_align-1 in the padding step became a plain +", "size_of::<T>()*buckets within ctrl_align-1 of usize::MAX: try_reserve panics (overflow checks) or returns Ok with a nonsense table (release)"),
 "C15-E": ("HashMap::get_many_mut_inner skips the duplicate check when N >= 16 and the N request hashes are pairwise distinct", "N >= 16 requests through a lookup type whose Hash is finer than its Equivalent: two requests with different hashes reach the same entry"),
 "C17-E": ("reserve_rehash_inner returns Err(CapacityOverflow) directly instead of fallibility.capacity_overflow() when len+additional overflows", "infallible reserve(n) with len+n > usize::MAX: reaches unreachable_unchecked (abort with debug assertions, silently reserves nothing in release)"),
 "C17-F": ("new_uninitialized returns Err(CapacityOverflow) directly when calculate_layout_for fails", "infallible with_capacity/reserve/shrink_to whose bucket count is representable but whose byte size is not (e.g. 1<<59 16-byte entries)"),
 "C18-E": ("new Iterator::nth overrides that skip whole groups by BitMask::count() = count_ones()/BITMASK_STRIDE", "portable scanner only: iter().nth(k)/skip/step_by with k >= 1 return wrong elements or None"),
 "C20-E": ("the element loops reserve(size_hint) again, unbounded, once the cautious preallocation is full", "an input that delivers more than 7168 distinct elements while still claiming a larger length"),
 "C20-F": ("deserialize_in_place bounds the claim by capacity + 4096 instead of 4096", "a reused place of >= 4096 buckets and an input claiming more than its capacity: the allocation doubles per call"),
 "C01-E": ("clear_no_drop 'sparse clear' for tables >= 2^18 buckets resets only non-empty groups and forgets the mirror control bytes", "a table of >= 262144 buckets cleared/drained while sparse, an occupied bucket among the first 16, keys whose probe wraps around the table end"),
 "C02-E": ("HashTable::iter_hash_mut takes &self instead of &mut self", "type-level: safe code can hold a &T and a &mut T to one slot; no existing program changes behaviour"),
 "C02-F": ("T: Send / T: Sync bounds dropped from the unsafe impls for RawIntoIter and RawDrain", "type-level: non-Send elements can cross threads through into_iter()/drain()"),
 "C03-E": ("clone_from's resize branch allocates the new buckets from the source's allocator", "clone_from between two collections on different allocator instances with different bucket counts"),
 "C03-F": ("new fold overrides on RawIntoIter/RawDrain run on a clone of the inner iterator and set items = 0 afterwards", "a panic in the consumer of into_iter()/drain().for_each/fold, or a Hash panic in dst.extend(src_map): yielded elements are dropped again"),
 "C04-E": ("RawIntoIter::fold override that is not unwind-safe", "Hash panic of the destination during dst.extend(src_map)/from_iter(src_map), or a panicking into_iter().for_each closure"),
 "C04-F": ("RawDrain::fold override that keeps items in sync but never advances the range position", "dst.extend(src.drain()) with a Hash panic, or a panicking drain().for_each closure"),
 "C06-E": ("clear_no_drop sparse path for tables >= 2^20 buckets forgets the mirror control bytes", "clear/drain of a sparse table of >= 2^20 buckets, then a lookup that wraps around the table end"),
 "C09-E": ("RawDrain drains the table in place (items = 0 at creation) instead of moving it out and back", "a Drain that is mem::forget-ten, then an insert: iterators yield stale moved-out elements"),
 "C10-E": ("RawExtractIf::next scans with a local clone of the iterator and writes it back only on normal exits", "a predicate that panics, after which the same ExtractIf object is driven further: elements are offered to the predicate twice"),
 "C10-F": ("new RawDrain::fold runs on a clone of the iterator and zeroes items afterwards", "drain().for_each/fold/extend with a consumer that panics: every element is dropped again"),
 "C13-E": ("reserve_rehash calls resize(buckets) instead of rehashing in place when element storage is >= 16 MiB", "tombstone saturation of a table whose element storage is >= 16 MiB: the allocation doubles every time"),
 "C14-E": ("RawEntryMut::insert on an occupied entry also replaces the stored key (insert_key)", "raw_entry_mut().from_key(..).insert(k, v) on a present key with a key type whose instances can be told apart"),
 "C19-E": ("RawIterRange::split cuts ranges of >= 4096 groups at a block boundary; a tie rounds up to an empty tail that re-reads its sibling's first group", "tables of >= 2^17 buckets (2^16 portable) driven by a pool of >= 2 threads"),
 "C05-C": ("RawTable::insert reuses the slot found before reserve(1) when the table was rehashed in place", "broken hashing only: a stored key that reports a different hash during the in-place rehash is moved into the pending insert's EMPTY slot and overwritten (len one larger than FULL buckets)"),
 "C07-C": ("ptr::eq fast paths in eq/is_subset/is_disjoint; the is_disjoint one returns false", "the same (empty) set object passed on both sides"),
 "C07-D": ("get_or_insert_with downgrades its equivalence assert! to debug_assert!", "release builds only (no debug assertions): a non-equivalent value is stored"),
 "C12-C": ("reserve_rehash_inner: when the allocator refuses, reclaim tombstones in place and return Ok (guard over-counts by the reserved 1/8)", "an allocator refusal exactly when full_capacity < len+additional <= buckets"),
 "C12-D": ("try_reserve fail-fast guard divides by size_of::<T>()", "zero-sized element types: division by zero panic on the slow path"),
 "C15-C": ("get_many_mut_pointers sorts lookups by control-byte page and applies the permutation twice instead of inverting it", "tables of >= 8192 buckets, N >= 3, probe-start pages in cyclic order"),
 "C17-C": ("calculate_layout_for computes size << buckets.trailing_zeros() instead of checked_mul", "size*buckets >= 2^64 (wraps silently)"),
 "C17-D": ("capacity_to_buckets small-capacity table replaced by a formula that yields 5 buckets for 3-byte elements", "3-byte element types on 16-byte groups, capacities 1..=3"),
 "C18-C": ("RawIterHashInner advances linearly by Group::WIDTH instead of the triangular probe sequence", "iter_hash for an element whose probe chain spans >= 3 groups with an EMPTY in the skipped group; differs between group widths"),
 "C20-C": ("HashSet::deserialize_in_place fetches the first element before clearing the place", "empty input deserialised in place into a non-empty set"),
 "C20-D": ("HashSet visitor inserts with insert_unique_unchecked", "set input that repeats an element"),
 "C01-C": ("rehash_in_place: hash hoisted out of the 'inner loop and refreshed after a swap with hasher(new_i) instead of slot i", "in-place rehash with a wrapped overflow chain and two distinct hashes (survived 3x5M random ops of the author's own differential harness)"),
 "C01-D": ("RawTable::insert re-probes after reserve(1) only if the bucket count changed (same idea as C14-A)", "vacant-entry insert at full load whose first probe window is 16 live entries in a table at most half live (never found in 300M random ops by the author's harness)"),
 "C04-C": ("rehash_in_place hashes the displaced element after replace_ctrl_hash has already rewritten the control byte", "a hasher panic at exactly that call in the cross-probe-group swap case of an in-place rehash"),
 "C04-D": ("new helper reset_to_empty_singleton drops the table in place before setting it to NEW (used by clone_from from an unallocated source)", "clone_from with a never-allocated source and a destructor panic in the destination"),
 "C06-C": ("Bucket index encoding for zero-sized elements scaled by align_of::<T>() in from/to_base_index but not in next_n", "a zero-sized element type with alignment > 1 and retain/extract_if on a HashTable"),
 "C06-D": ("RawIterHashInner::next ends the probe at a group containing EMPTY or DELETED", "iter_hash for an element pushed into a later probe group behind a tombstone"),
 "C09-C": ("fold_impl rewritten to walk the remaining groups in pairs, assuming an odd number of groups follows", "next() switched to fold() at a prefix that leaves the iterator in an odd-numbered non-last group of a table with >= 64 buckets and an element in the last group"),
 "C10-C": ("Bucket::next_n ZST branch computes invalid_mut(offset + 1)", "zero-sized elements in a table with > 16 buckets: retain/extract_if on an entry in bucket >= 16"),
 "C10-D": ("RawDrain::drop copies the table back to its owner before dropping the remaining elements", "a destructor panic while a Drain is being dropped: the collection is left full of dropped/moved-out elements"),
 "C11-C": ("clone_from_impl skips the element-cloning loop for zero-sized element types", "clone()/clone_from of a table of zero-sized elements with observable Clone/Drop"),
 "C11-D": ("clone_from_impl unwind guard records index instead of index + 1", "a Clone panic after at least one element was cloned: the most recent clone is leaked"),
 "C13-C": ("reserve_rehash_inner takes the in-place branch only when there is no drop function", "churn with element types that have a destructor: tombstones are never reclaimed in place"),
 "C19-C": ("RawIterRange::split skips leading empty groups with an off-by-one loop guard", "a range handed to split() whose groups hold no full bucket (sparse table, >= 4 threads): the neighbour's first group is delivered twice"),
 "C11-A": ("clone_from_impl rebuilds the clone's control bytes from EMPTY instead of copying the source's (tombstones become EMPTY)", "a source of >= 32 buckets with a tombstone inside a full run and a displaced key behind it"),
 "C11-B": ("clone_from_impl bit-copies buckets when the element type has no drop glue (Clone::clone never called)", "a Clone-but-not-Copy element type without drop glue and a non-trivial clone"),
 "C12-A": ("calculate_layout_for checks isize::MAX only for the data part, not data + control bytes", "element size 2^j-1 and len+additional just above one particular 7/8*2^k boundary (k=61 for u8)"),
 "C12-B": ("reserve_rehash_inner frees an allocated-but-empty table before allocating the new one", "a failing try_reserve on an emptied/pre-sized table with additional > capacity()/2"),
 "C13-A": ("erase credits growth_left also when it leaves a DELETED marker", "churn with tombstone-creating removals at high load followed by fresh keys: EMPTY bytes run out, probe never terminates"),
 "C13-B": ("reserve_rehash_inner computes new_items from capacity - growth_left (tombstones count as occupied)", "churn under clustered hashes: in-place rehash never chosen, table doubles without bound"),
 "C14-A": ("RawTable::insert re-probes the slot after reserve(1) only if the bucket count changed", "Vacant-entry insert at capacity()==len() with >= half tombstones where the in-place rehash frees an earlier probe group"),
 "C14-B": ("replace_bucket_with restores the tag with a plain store instead of set_ctrl (mirror byte stays EMPTY)", "replace_entry_with(Some) on an element that wrapped around the table end into a bucket below the group width"),
 "C15-A": ("get_many_mut compares pointers only when the request hashes are equal", "two requests with different hashes resolving to one entry (unlawful eq / inconsistent Hash)"),
 "C15-B": ("get_many_mut duplicate scan stops at the first absent key (break for continue)", "N >= 3 with an absent key before the second occurrence of a duplicate"),
 "C17-A": ("calculate_layout_for rounds the control offset to Group::WIDTH instead of ctrl_align", "element alignment > 16 (e.g. repr(align(64)))"),
 "C17-B": ("capacity_to_buckets uses saturating_mul(8)/7 instead of checked_mul", "capacity > usize::MAX/8; visible for zero-sized elements (4 EiB request reaches the allocator)"),
 "C18-A": ("portable match_tag drops every hit that has another hit one byte below it", "portable scanner only: two live elements with equal tags in adjacent buckets, the upper one displaced"),
 "C19-A": ("ParDrainProducer::fold_with checks folder.full() before consuming the item it already took", "into_par_iter/par_drain with a short-circuiting consumer on drop-tracked elements: one element per stopped producer is never dropped"),
 "C19-B": ("RawParDrain::drive_unindexed clears the table after the bridge instead of in a scope guard", "a consumer that panics mid par_drain: the table still claims moved-out elements"),
 "C20-A": ("serde size_hint::cautious returns the hint unchanged for zero-sized elements", "HashSet<()>/HashMap<(),()> with a claimed length above 4096"),
 "C20-B": ("MapVisitor::visit_map uses entry(key).or_insert(value): the first value of a repeated key wins", "input that repeats a key with different values"),
 "C01-A": ("is_in_same_group measures from the group-aligned start of the probe position", "an in-place rehash with an unaligned home bucket and a specific tombstone layout (identity-like hashes)"),
 "C01-B": ("rehash_in_place: hash of bucket i hoisted out of the 'inner swap loop", "an in-place rehash in which a displaced element is swapped with another not-yet-rehashed element of a different hash"),
 "C02-A": ("replace_bucket_with runs the closure while the slot is still marked FULL", "a panicking replace_entry_with/and_replace_entry_with closure, then any further use or drop of the map"),
 "C02-B": ("drain_iter_from uses ptr::read instead of mem::replace(NEW)", "a Drain advanced at least once and then mem::forget-ten, then use/drop of the collection"),
 "C03-A": ("replace_bucket_with hands the element to the closure while the table still owns it", "a panicking closure with key/value types that have drop glue"),
 "C03-B": ("shrink_to fast path for an empty table assigns the new inner table without freeing the old block", "shrink_to(n>0) on an element-less table that owns a block larger than n needs"),
 "C04-A": ("replace_bucket_with bit-moves the element out while the bucket stays FULL", "a panicking replace_entry_with closure; double drop when the map is dropped"),
 "C04-B": ("rehash_in_place unwind guard iterates 0..bucket_mask (skips the last bucket)", "hasher panic during in-place rehash with an occupied, not yet rehashed last bucket"),
 "C05-A": ("get_many_mut compares bucket pointers only between requests with equal hashes", "two requests with different hashes (same tag and probe window) resolving to one entry through inconsistent Hash/Eq"),
 "C06-A": ("rehash_in_place: hash hoisted out of the 'inner loop", "in-place rehash with a wrapped, displaced element whose target slot holds another unprocessed element"),
 "C06-B": ("find_or_find_insert_slot_inner stops probing at the first group with an insert slot", "entry()/insert of an element stored in a later probe window behind a tombstone (>= 17 colliding positions)"),
 "C07-A": ("HashSet::union chains first.iter() with rest.difference(self) after a size-based swap", "|self| < |other| strictly and self not a subset of other"),
 "C07-B": ("get_or_insert_with inserts before asserting equivalence", "a non-equivalent value from the closure, observed after catch_unwind"),
 "C08-A": ("shrink_to returns early when min_size >= capacity()", "a table whose spare room is all tombstones (capacity()==len()) with >= 32 buckets"),
 "C08-B": ("allocation_size computed as size*buckets+ctrl bytes (drops the alignment padding)", "element sizes that are not a multiple of 4 in 4- or 8-bucket tables"),
 "C09-A": ("fold_impl fast path treats a group without EMPTY bytes as fully occupied", "fold/for_each over a table with > 1 group where a later group is full except for a DELETED byte"),
 "C10-A": ("Bucket::next_n ZST branch uses wrapping_add (moves by 0 bytes)", "retain/extract_if on a zero-sized element type removing an element not in bucket 0"),
 "C10-B": ("RawDrain::drop resets and moves the table back before dropping the remaining elements", "a drain dropped early over a table with > 1 group and elements with drop glue"),
}
src_root, dst_root = os.environ.get("SEED_SRC", "/tmp/seeded-out"), "/verif/seeded"
RENAME = dict(x.split("=") for x in os.environ.get("SEED_RENAME", "").split(",") if x)
log = open(sys.argv[1]).read() if len(sys.argv) > 1 else ""
for line in log.splitlines():
    m = re.match(r"RESULT (C\d+) ([AB]) build_warn=(\d+) build_feat_err=(\d+) suite_pass/fail=(\d+)/(\d+) demo_with=(\S+) demo_without=(\S+)", line)
    if not m:
        continue
    pid, v = m.group(1), m.group(2)
    ok = m.group(4) == "0" and m.group(6) == "0" and not m.group(7).endswith("/0") and m.group(8).endswith("/0")
    if not ok:
        print("NOT CONFIRMED", line); continue
    d = os.path.join(dst_root, "%s-%s" % (pid, RENAME.get(v, v)))
    os.makedirs(d, exist_ok=True)
    shutil.copy(os.path.join(src_root, pid, "patch_%s.diff" % v), os.path.join(d, "patch.diff"))
    shutil.copy(os.path.join(src_root, pid, "demo_%s.rs" % v), os.path.join(d, "demo.rs"))
    shutil.copy(os.path.join(src_root, pid, "NOTES.md"), os.path.join(d, "NOTES.md"))
    what, needs = SUMMARY.get("%s-%s" % (pid, RENAME.get(v, v)), ("see NOTES.md", "see NOTES.md"))
    metap = os.path.join(d, "meta.json")
    meta = json.load(open(metap)) if os.path.exists(metap) else {}
    meta.update({
        "property": pid, "variant": RENAME.get(v, v), "origin": os.environ.get("SEED_ORIGIN", "independent sub-agent given only the property text and a scratch worktree"),
        "change": what, "needs_to_manifest": needs,
        "confirmed_by_me": {"how": "tools/confirm_seed.sh in a scratch worktree: patch applied -> cargo build (default and rayon,serde,rustc-internal-api), cargo test --workspace --offline, demo as tests/seeded_demo.rs; patch reverted -> demo again",
                            "existing_suite_pass_fail": "%s/%s" % (m.group(5), m.group(6)), "demo_with_change_pass_fail": m.group(7), "demo_without_change_pass_fail": m.group(8)},
        "demo_features": os.environ.get("FEATURES", ""),
    })
    meta.setdefault("detected_by", {})
    json.dump(meta, open(metap, "w"), indent=1)
    print("imported", d)
