#!/bin/bash
# usage: tools/mutrun.sh <name> <patch.diff> <ID> [ID...]
# Runs the quick (or $TIER) checks against a scratch worktree of /repo with the patch applied, without touching /repo.
# Everything (worktree, harness copy, build output) lives under /tmp/mut/<name> and is removed afterwards.
set -u
name="$1"; patch="$(readlink -f "$2")"; shift 2
root=/tmp/mut/$name
rm -rf "$root"; mkdir -p "$root"
git -C /repo worktree add -q --detach "$root/repo" HEAD || exit 2
cleanup() { [ -n "${KEEP:-}" ] && return; git -C /repo worktree remove --force "$root/repo" 2>/dev/null; rm -rf "$root"; git -C /repo worktree prune; }
trap cleanup EXIT
( cd "$root/repo" && git apply "$patch" ) || { echo "== $name: patch does not apply"; exit 2; }
cp /repo/Cargo.lock "$root/repo/" 2>/dev/null
mkdir -p "$root/harness"
# HARNESS_FROM: take the harness sources from another checkout of /verif (e.g. a worktree of an earlier commit), to
# measure what an earlier version of the checks would have reported
hf="${HARNESS_FROM:-/verif/harness}"
cp -r "$hf/src" "$hf/Cargo.lock" /verif/harness/.cargo "$root/harness/"
sed "s#path = \"/repo\"#path = \"$root/repo\"#" "$hf/Cargo.toml" > "$root/harness/Cargo.toml"
# the no-default-features crate (lane nd) lives next to the harness
mkdir -p "$root/harness_nd"
cp -r "$(dirname "$hf")/harness_nd/src" "$(dirname "$hf")/harness_nd/Cargo.lock" "$(dirname "$hf")/harness_nd/.cargo" "$root/harness_nd/" 2>/dev/null
[ -f "$(dirname "$hf")/harness_nd/Cargo.toml" ] && sed "s#path = \"/repo\"#path = \"$root/repo\"#" "$(dirname "$hf")/harness_nd/Cargo.toml" > "$root/harness_nd/Cargo.toml"
export HBV_HARNESS_DIR="$root/harness" HBV_TARGET_DIR="$root/target" HBV_REPLAY_DIR="$root/replays" HBV_EVIDENCE_DIR="$root/evidence"
cd /verif
for id in "$@"; do
  start=$(date +%s)
  out=$(./check "$id" "${TIER:-quick}" 2>&1); rc=$?
  echo "== $name $id rc=$rc ($(( $(date +%s) - start ))s)"
  echo "$out" | grep -E "VIOLATION|detail:|INCONCLUSIVE|KNOWN|held|FAILED" | head -${LINES_MAX:-3} | cut -c1-500
done
