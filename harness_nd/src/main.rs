//! Lane `nd`: hashbrown built with `default-features = false`. The configuration differs in code that the other lanes
//! never compile: the private `Global` allocator fallback of `src/raw/alloc.rs`, hashbrown's own `Equivalent` trait,
//! no default hasher. Two small workloads run here:
//!   C12: try_reserve against a *global* allocator that refuses (the only way to refuse in this configuration):
//!        Err(AllocError) with the refused layout, nothing changed, never an abort;
//!   C01: a differential run of HashMap / HashSet / HashTable against BTreeMap with the structure invariants from the
//!        dump hook, so that the configuration is known to behave like the default one.
//! CLI and summary format are those of the main harness (`hbverif`), reduced to what ./check reads.

use hashbrown::{HashMap, HashSet, HashTable, TryReserveError};
use std::alloc::{GlobalAlloc, Layout, System};
use std::collections::{BTreeMap, BTreeSet};
use std::hash::{BuildHasher, Hasher};
use std::io::Write;
use std::sync::atomic::{AtomicUsize, Ordering};

// ---- a global allocator that can be told to refuse large requests ----------------------------------------
static CAP: AtomicUsize = AtomicUsize::new(usize::MAX);
static REFUSED: AtomicUsize = AtomicUsize::new(0);
static LAST_REFUSED: AtomicUsize = AtomicUsize::new(0);
static ALLOCS: AtomicUsize = AtomicUsize::new(0);
struct Gate;
unsafe impl GlobalAlloc for Gate {
    unsafe fn alloc(&self, l: Layout) -> *mut u8 {
        if l.size() > CAP.load(Ordering::Relaxed) {
            REFUSED.fetch_add(1, Ordering::Relaxed);
            LAST_REFUSED.store(l.size(), Ordering::Relaxed);
            return std::ptr::null_mut();
        }
        ALLOCS.fetch_add(1, Ordering::Relaxed);
        System.alloc(l)
    }
    unsafe fn dealloc(&self, p: *mut u8, l: Layout) {
        System.dealloc(p, l)
    }
}
#[global_allocator]
static G: Gate = Gate;

// ---- prng, hasher ------------------------------------------------------------------------------------------
fn splitmix(x: u64) -> u64 {
    let mut z = x.wrapping_add(0x9E37_79B9_7F4A_7C15);
    z = (z ^ (z >> 30)).wrapping_mul(0xBF58_476D_1CE4_E5B9);
    z = (z ^ (z >> 27)).wrapping_mul(0x94D0_49BB_1331_11EB);
    z ^ (z >> 31)
}
struct Rng(u64);
impl Rng {
    fn next(&mut self) -> u64 {
        self.0 = self.0.wrapping_add(0x9E37_79B9_7F4A_7C15);
        splitmix(self.0)
    }
    fn below(&mut self, n: u64) -> u64 {
        ((self.next() as u128 * n as u128) >> 64) as u64
    }
}
/// mode 0: well mixed; 1: identity (position = key); 2: everything collides in position; 3: one tag
#[derive(Clone, Copy)]
struct Bh(u8, u64);
struct H(u8, u64, u64);
impl Hasher for H {
    fn finish(&self) -> u64 {
        let m = splitmix(self.2 ^ self.1);
        match self.0 {
            0 => m,
            1 => self.2,
            2 => m << 57,
            _ => m >> 7,
        }
    }
    fn write(&mut self, b: &[u8]) {
        for x in b {
            self.2 = self.2.rotate_left(8) ^ *x as u64;
        }
    }
    fn write_u64(&mut self, v: u64) {
        self.2 = v;
    }
}
impl BuildHasher for Bh {
    type Hasher = H;
    fn build_hasher(&self) -> H {
        H(self.0, self.1, 0)
    }
}

// ---- reporting -----------------------------------------------------------------------------------------------
struct Out {
    prop: String,
    lane: String,
    seed: u64,
    shard: u64,
    out: Option<String>,
    replay_dir: String,
    scenarios: u64,
    evaluations: u64,
    sigs: BTreeSet<u64>,
    counters: BTreeMap<String, u64>,
    t0: std::time::Instant,
    violations: Vec<String>,
    scen: u64,
    desc: String,
}
fn esc(s: &str) -> String {
    s.replace('\\', "\\\\").replace('"', "\\\"").replace('\n', " ")
}
impl Out {
    fn bump(&mut self, k: &str, n: u64) {
        *self.counters.entry(k.to_string()).or_insert(0) += n;
    }
    fn viol(&mut self, m: String) {
        if self.violations.len() < 8 {
            self.violations.push(m);
        }
    }
    fn summary(&self, replay: Option<&str>) {
        let counters: Vec<String> = self.counters.iter().map(|(k, v)| format!("\"{}\":{}", k, v)).collect();
        let sigs: Vec<String> = self.sigs.iter().map(|s| s.to_string()).collect();
        let mut s = format!(
            "{{\"property\":\"{}\",\"lane\":\"{}\",\"seed\":{},\"shard\":{},\"scenarios\":{},\"evaluations\":{},\"distinct\":{},\"sigs\":[{}],\"counters\":{{{}}},\"maxima\":{{}},\"samples\":[{{\"scenario\":{},\"desc\":{{\"case\":\"{}\"}},\"last_ops\":[]}}],\"digests\":[],\"elapsed_ms\":{}",
            self.prop, self.lane, self.seed, self.shard, self.scenarios, self.evaluations, self.sigs.len(), sigs.join(","), counters.join(","), self.scen, esc(&self.desc), self.t0.elapsed().as_millis()
        );
        if let Some(p) = replay {
            let v: Vec<String> = self.violations.iter().map(|x| format!("\"{}\"", esc(x))).collect();
            s += &format!(",\"violation_replay\":\"{}\",\"violations\":[{}]", p, v.join(","));
        }
        s += "}";
        match &self.out {
            Some(p) => {
                let _ = std::fs::write(p, s);
            }
            None => println!("HBV-SUMMARY {}", s),
        }
    }
    fn finish_scenario(&mut self) {
        if self.violations.is_empty() {
            return;
        }
        let _ = std::fs::create_dir_all(&self.replay_dir);
        let path = format!("{}/{}-{}-{}-{}.json", self.replay_dir, self.prop, self.lane, self.seed, self.scen);
        let v: Vec<String> = self.violations.iter().map(|x| format!("\"{}\"", esc(x))).collect();
        let d = format!(
            "{{\"property\":\"{}\",\"lane\":\"{}\",\"seed\":{},\"tier\":\"quick\",\"shard\":\"{}\",\"scenario\":{},\"desc\":{{\"case\":\"{}\"}},\"violations\":[{}],\"last_ops\":[],\"extra\":{{}}}}",
            self.prop, self.lane, self.seed, self.shard, self.scen, esc(&self.desc), v.join(",")
        );
        let _ = std::fs::write(&path, d);
        println!("HBV-VIOLATION property={} replay={}", self.prop, path);
        for m in &self.violations {
            println!("HBV-DETAIL {}", m);
        }
        self.summary(Some(&path));
        let _ = std::io::stdout().flush();
        std::process::exit(3);
    }
}

// ---- structure invariants from the dump hook (I1-I4) -----------------------------------------------------------
fn check_dump(o: &mut Out, what: &str, d: &hashbrown::verif::RawDump, len: usize) {
    let buckets = d.bucket_mask.wrapping_add(1);
    if !buckets.is_power_of_two() {
        o.viol(format!("{}: bucket count {} is not a power of two", what, buckets));
        return;
    }
    if d.is_empty_singleton {
        if d.items != 0 {
            o.viol(format!("{}: singleton with items {}", what, d.items));
        }
        return;
    }
    let full = d.ctrl[..buckets].iter().filter(|b| **b & 0x80 == 0).count();
    let empty = d.ctrl[..buckets].iter().filter(|b| **b == 0xFF).count();
    if full != d.items || d.items != len {
        o.viol(format!("{}: items {} / len() {} but {} control bytes are FULL", what, d.items, len, full));
    }
    if empty == 0 || d.growth_left > empty {
        o.viol(format!("{}: growth_left {} with {} EMPTY control bytes", what, d.growth_left, empty));
    }
    for i in 0..d.group_width.min(d.ctrl.len() - buckets) {
        let want = if i < buckets { d.ctrl[i] } else { 0xFF };
        if d.ctrl[buckets + i] != want && buckets >= d.group_width {
            o.viol(format!("{}: mirror byte {} is {:#x}, bucket {} holds {:#x}", what, i, d.ctrl[buckets + i], i, d.ctrl[i]));
        }
    }
}

// ---- C12: try_reserve under a refusing global allocator ---------------------------------------------------------
fn c12_one<const N: usize>(o: &mut Out, rng: &mut Rng) {
    let bh = Bh(rng.below(4) as u8, rng.next());
    let k = rng.below(300) as u64;
    for kind in 0..3u64 {
        let mut map: HashMap<u64, [u8; N], Bh> = HashMap::with_hasher(bh);
        let mut set: HashSet<[u64; 1], Bh> = HashSet::with_hasher(bh);
        let mut tab: HashTable<(u64, [u8; N])> = HashTable::new();
        let hash = |x: &(u64, [u8; N])| splitmix(x.0);
        for i in 0..k {
            match kind {
                0 => {
                    map.insert(i, [i as u8; N]);
                }
                1 => {
                    set.insert([i]);
                }
                _ => {
                    tab.insert_unique(splitmix(i), (i, [i as u8; N]), hash);
                }
            }
        }
        let esize = match kind {
            0 => 8 + N,
            1 => 8,
            _ => 8 + N,
        };
        for additional in [1usize << 16, 1 << 20, 1 << 30, 1 << 40, (isize::MAX as usize) / esize / 2, isize::MAX as usize, usize::MAX - k as usize, usize::MAX] {
            o.evaluations += 1;
            o.sigs.insert(splitmix(kind * 1000 + N as u64 * 7 + additional.trailing_zeros() as u64));
            let what = format!("{}<{} bytes> len {} try_reserve({})", ["HashMap", "HashSet", "HashTable"][kind as usize], esize, k, additional);
            let (len0, cap0) = match kind {
                0 => (map.len(), map.capacity()),
                1 => (set.len(), set.capacity()),
                _ => (tab.len(), tab.capacity()),
            };
            let r0 = REFUSED.load(Ordering::Relaxed);
            let a0 = ALLOCS.load(Ordering::Relaxed);
            CAP.store(32 << 10, Ordering::Relaxed);
            let r = match kind {
                0 => map.try_reserve(additional),
                1 => set.try_reserve(additional),
                _ => tab.try_reserve(additional, hash),
            };
            CAP.store(usize::MAX, Ordering::Relaxed);
            let refused = REFUSED.load(Ordering::Relaxed) - r0;
            let (len1, cap1) = match kind {
                0 => (map.len(), map.capacity()),
                1 => (set.len(), set.capacity()),
                _ => (tab.len(), tab.capacity()),
            };
            match r {
                Ok(()) => {
                    if cap1 < len0.saturating_add(additional) {
                        o.viol(format!("{}: Ok but capacity() is {}", what, cap1));
                    }
                    o.bump("nd_try_reserve_ok", 1);
                }
                Err(TryReserveError::CapacityOverflow) => {
                    if refused != 0 || ALLOCS.load(Ordering::Relaxed) != a0 {
                        o.viol(format!("{}: CapacityOverflow although the allocator was asked", what));
                    }
                    let need = (len0 as u128 + additional as u128) * (esize as u128 + 1) * 4 + 4096;
                    if need <= isize::MAX as u128 {
                        o.viol(format!("{}: CapacityOverflow for a plainly representable request", what));
                    }
                    o.bump("nd_capacity_overflow_reported", 1);
                }
                Err(TryReserveError::AllocError { layout }) => {
                    if refused == 0 {
                        o.viol(format!("{}: AllocError although the allocator refused nothing", what));
                    } else if layout.size() != LAST_REFUSED.load(Ordering::Relaxed) {
                        o.viol(format!("{}: AllocError reports a layout of {} bytes, the allocator refused {} bytes", what, layout.size(), LAST_REFUSED.load(Ordering::Relaxed)));
                    }
                    o.bump("nd_refused_request_reported", 1);
                }
            }
            if r.is_err() && (len1 != len0 || cap1 != cap0) {
                o.viol(format!("{}: the failed call changed len/capacity {}/{} -> {}/{}", what, len0, cap0, len1, cap1));
            }
            // contents unchanged and still findable
            let ok = match kind {
                0 => (0..k).all(|i| map.get(&i) == Some(&[i as u8; N])) && map.len() == k as usize,
                1 => (0..k).all(|i| set.contains(&[i])) && set.len() == k as usize,
                _ => (0..k).all(|i| tab.find(splitmix(i), |e| e.0 == i).is_some()) && tab.len() == k as usize,
            };
            if !ok {
                o.viol(format!("{}: contents changed", what));
            }
        }
        match kind {
            0 => check_dump(o, "C12 map", &map.verif_dump(), map.len()),
            1 => check_dump(o, "C12 set", &set.verif_dump(), set.len()),
            _ => check_dump(o, "C12 table", &tab.verif_dump(), tab.len()),
        }
    }
}

// ---- C01: differential run in this configuration ------------------------------------------------------------------
fn c01_one(o: &mut Out, rng: &mut Rng) {
    let bh = Bh(rng.below(4) as u8, rng.next());
    let universe = [8u64, 24, 100, 2000][rng.below(4) as usize];
    let mut m: HashMap<u64, u64, Bh> = HashMap::with_hasher(bh);
    let mut s: HashSet<u64, Bh> = HashSet::with_hasher(bh);
    let mut t: HashTable<(u64, u64)> = HashTable::new();
    let th = move |e: &(u64, u64)| bh.hash_one(e.0);
    let mut model: BTreeMap<u64, u64> = BTreeMap::new();
    let n_ops = 200 + rng.below(600);
    for step in 0..n_ops {
        let k = rng.below(universe + 2);
        let v = rng.next() >> 8;
        o.evaluations += 1;
        let op = rng.below(12);
        match op {
            0..=3 => {
                let a = m.insert(k, v);
                let b = model.insert(k, v);
                if a != b {
                    o.viol(format!("insert({}) returned {:?}, model {:?}", k, a, b));
                }
                s.insert(k);
                match t.entry(bh.hash_one(k), |e| e.0 == k, th) {
                    hashbrown::hash_table::Entry::Occupied(mut e) => e.get_mut().1 = v,
                    hashbrown::hash_table::Entry::Vacant(e) => {
                        e.insert((k, v));
                    }
                }
            }
            4..=6 => {
                let a = m.remove(&k);
                let b = model.remove(&k);
                if a != b {
                    o.viol(format!("remove({}) returned {:?}, model {:?}", k, a, b));
                }
                s.remove(&k);
                if let Ok(e) = t.find_entry(bh.hash_one(k), |e| e.0 == k) {
                    e.remove();
                }
            }
            7 => {
                *m.entry(k).or_insert(0) += 1;
                *model.entry(k).or_insert(0) += 1;
                s.insert(k);
                let cur = model[&k];
                match t.entry(bh.hash_one(k), |e| e.0 == k, th) {
                    hashbrown::hash_table::Entry::Occupied(mut e) => e.get_mut().1 = cur,
                    hashbrown::hash_table::Entry::Vacant(e) => {
                        e.insert((k, cur));
                    }
                }
            }
            8 => {
                let salt = rng.next();
                m.retain(|k, _| splitmix(*k ^ salt) % 3 != 0);
                s.retain(|k| splitmix(*k ^ salt) % 3 != 0);
                t.retain(|e| splitmix(e.0 ^ salt) % 3 != 0);
                model.retain(|k, _| splitmix(*k ^ salt) % 3 != 0);
            }
            9 => {
                if rng.below(8) == 0 {
                    m.clear();
                    s.clear();
                    t.clear();
                    model.clear();
                } else {
                    m.shrink_to_fit();
                    s.shrink_to(rng.below(40) as usize);
                    t.shrink_to_fit(th);
                }
            }
            10 => {
                m.reserve(rng.below(64) as usize);
                t.reserve(rng.below(64) as usize, th);
                let c = m.clone();
                if c != m {
                    o.viol("clone != original".to_string());
                }
            }
            _ => {
                let a = m.get(&k).copied();
                let b = model.get(&k).copied();
                if a != b || s.contains(&k) != b.is_some() || t.find(bh.hash_one(k), |e| e.0 == k).map(|e| e.1) != b {
                    o.viol(format!("lookup of {} differs from the model ({:?} vs {:?})", k, a, b));
                }
            }
        }
        if step % 7 == 0 || step + 1 == n_ops {
            let mut got: Vec<(u64, u64)> = m.iter().map(|(k, v)| (*k, *v)).collect();
            got.sort();
            let want: Vec<(u64, u64)> = model.iter().map(|(k, v)| (*k, *v)).collect();
            let mut gs: Vec<u64> = s.iter().copied().collect();
            gs.sort();
            let mut gt: Vec<(u64, u64)> = t.iter().copied().collect();
            gt.sort();
            if got != want || gs != want.iter().map(|e| e.0).collect::<Vec<_>>() || gt != want {
                o.viol(format!("after op {} at step {}: contents differ from the model (map {} / set {} / table {} / model {})", op, step, got.len(), gs.len(), gt.len(), want.len()));
                return;
            }
            check_dump(o, "C01 map", &m.verif_dump(), m.len());
            check_dump(o, "C01 set", &s.verif_dump(), s.len());
            check_dump(o, "C01 table", &t.verif_dump(), t.len());
            o.sigs.insert(splitmix(op * 64 + (m.capacity().trailing_zeros() as u64)));
        }
        if !o.violations.is_empty() {
            return;
        }
    }
    o.bump("nd_differential_histories", 1);
}

fn main() {
    let args: Vec<String> = std::env::args().collect();
    if args.len() < 2 {
        eprintln!("usage: hbnd <C01|C12> [--seed N] [--shard i/n] [--max-ms N] [--out P] [--replay-dir D] [--only K]");
        std::process::exit(2);
    }
    let mut o = Out {
        prop: args[1].clone(),
        lane: "nd".into(),
        seed: 1,
        shard: 0,
        out: None,
        replay_dir: "/verif/replays".into(),
        scenarios: 0,
        evaluations: 0,
        sigs: BTreeSet::new(),
        counters: BTreeMap::new(),
        t0: std::time::Instant::now(),
        violations: Vec::new(),
        scen: 0,
        desc: String::new(),
    };
    let (mut nshards, mut max_ms, mut only) = (1u64, 3000u64, None::<u64>);
    let mut i = 2;
    while i < args.len() {
        let v = args.get(i + 1).cloned().unwrap_or_default();
        match args[i].as_str() {
            "--seed" => o.seed = v.parse().unwrap_or(1),
            "--shard" => {
                let mut p = v.split('/');
                o.shard = p.next().and_then(|x| x.parse().ok()).unwrap_or(0);
                nshards = p.next().and_then(|x| x.parse().ok()).unwrap_or(1);
            }
            "--max-ms" => max_ms = v.parse().unwrap_or(3000),
            "--out" => o.out = Some(v),
            "--replay-dir" => o.replay_dir = v,
            "--only" => only = v.parse().ok(),
            "--lane" => o.lane = v,
            _ => {}
        }
        i += 2;
    }
    if o.prop != "C01" && o.prop != "C12" {
        println!("unknown property {}", o.prop);
        std::process::exit(2);
    }
    let mut k = 0u64;
    loop {
        let idx = only.unwrap_or(k * nshards + o.shard);
        o.scen = idx;
        let mut rng = Rng(splitmix(o.seed ^ splitmix(idx ^ 0x6e64)));
        if o.prop == "C12" {
            o.desc = format!("try_reserve under a refusing global allocator (no default features), scenario {}", idx);
            match idx % 3 {
                0 => c12_one::<0>(&mut o, &mut rng),
                1 => c12_one::<16>(&mut o, &mut rng),
                _ => c12_one::<192>(&mut o, &mut rng),
            }
        } else {
            o.desc = format!("differential history (no default features), scenario {}", idx);
            c01_one(&mut o, &mut rng);
        }
        o.scenarios += 1;
        o.finish_scenario();
        k += 1;
        if only.is_some() || o.t0.elapsed().as_millis() as u64 >= max_ms {
            break;
        }
    }
    o.summary(None);
}
