"""Per-property configuration of ./check: lanes, shard counts, budgets, evidence texts."""


def lanes(*items):
    return [dict(lane=l, shards=n, max_ms=ms, extra=(x[0] if x else {})) for (l, n, ms, *x) in items]


COMMON_ASSUME = [
    "the harness's own models, validator and ledgers are correct (DESIGN.md section 12)",
    "x86_64, 64-bit usize; hashbrown's `nightly` feature does not compile on the installed nightlies and is not covered",
    "verdict is 'held on the executions produced', not a proof",
]

PROPS = {
    "C01": dict(
        level="exploration",
        rule=("seeded random histories (60-400 public-API calls) over HashMap<K,V,PlanBH,CkAlloc> for 8 element-layout pairs x 13 hash plans "
              "(well-mixed, constant 0/MAX, position/tag-colliding palettes, tail, stride) x 8 starting capacities; every call's return value is "
              "compared with an association-list model, and after every call the full contents, get() of every universe key and the structure "
              "invariants I1-I5 are checked. evaluations = model-checked API calls; a case is non-trivial/distinct by its signature "
              "(table class, load decile, tombstones present, log2 buckets, at-full-load) x operation kind, counted as a set across shards"),
        lanes=dict(
            quick=lanes(("dbg", 10, 20000), ("generic", 6, 20000)),
            thorough=lanes(("dbg", 16, 240000), ("generic", 16, 240000)),
        ),
        require=["rehash_in_place", "resize_grow", "steps_with_tombstones", "class_lt_group", "class_eq_group", "class_gt_group", "steps_at_full_load"],
        assumptions=COMMON_ASSUME,
    ),
}
