"""Per-property configuration of ./check: lanes, shard counts, budgets, evidence texts."""


def lanes(*items):
    return [dict(lane=l, shards=n, max_ms=ms, extra=(x[0] if x else {})) for (l, n, ms, *x) in items]


COMMON_ASSUME = [
    "the harness's own models, validator and ledgers are correct (DESIGN.md section 12)",
    "x86_64, 64-bit usize; hashbrown's `nightly` feature does not compile on the installed nightlies and is not covered",
    "verdict is 'held on the executions produced', not a proof",
]

PROPS = {
    "C01": dict(
        level="exploration",
        rule=("seeded random histories (60-400 public-API calls) over HashMap<K,V,PlanBH,CkAlloc> for 8 element-layout pairs x 13 hash plans "
              "(well-mixed, constant 0/MAX, position/tag-colliding palettes, tail, stride) x 8 starting capacities; every call's return value is "
              "compared with an association-list model, and after every call the full contents, get() of every universe key and the structure "
              "invariants I1-I5 are checked. evaluations = model-checked API calls; a case is non-trivial/distinct by its signature "
              "(table class, load decile, tombstones present, log2 buckets, at-full-load) x operation kind, counted as a set across shards"),
        lanes=dict(
            quick=lanes(("dbg", 6, 20000), ("generic", 4, 20000), ("rel", 3, 20000), ("native", 2, 20000), ("nd", 1, 5000)),
            thorough=lanes(("dbg", 16, 240000), ("generic", 16, 240000), ("rel", 8, 240000), ("native", 8, 240000), ("asan", 8, 120000), ("miri", 8, 180000), ("nd", 2, 60000)),
        ),
        require=["rehash_in_place", "resize_grow", "steps_with_tombstones", "class_lt_group", "class_eq_group", "class_gt_group", "steps_at_full_load"],
        assumptions=COMMON_ASSUME,
    ),
    "C02": dict(
        level="exploration",
        rule=("seeded random histories of safe API calls (incl. mem::forget of Drain/ExtractIf/IntoIter/Iter/Entry objects part-way, after which the "
              "collection is used again and dropped) over HashMap for 14 (key,value) layout pairs and HashTable for 9 element layouts (size 0..200, align 1..64, "
              "with and without drop glue) x 13 hash plans; oracles: the lane's sanitizer (debug assertions + ub_checks, ASan, Miri), the checking allocator "
              "(red zones, poison, layout and double-free ledger), the element registry (checksum + liveness of every reference handed out, double drop) and "
              "invariants I1-I6 after every call. evaluations = API calls executed under those monitors; distinct = (table-state signature x operation kind) "
              "plus (collection x element layout) cells, as a set"),
        lanes=dict(
            quick=lanes(("dbg", 5, 15000), ("generic", 3, 15000), ("asan", 4, 15000), ("miri", 4, 15000)),
            thorough=lanes(("dbg", 8, 180000), ("generic", 8, 180000), ("asan", 16, 180000), ("miri", 16, 240000)),
        ),
        require=["rehash_in_place", "resize_grow", "steps_with_tombstones", "class_lt_group", "class_eq_group", "class_gt_group", "class_singleton"],
        assumptions=COMMON_ASSUME + ["ASan sees red zones and freed memory, not a wrong live slot inside the table's own block: that gap is covered by element checksums and Miri"],
    ),
    "C06": dict(
        level="exploration",
        rule=("seeded random histories over HashTable<E,CkAlloc> (find, find_mut, find_entry, entry, insert_unique, OccupiedEntry::remove + VacantEntry::insert "
              "same-slot reinsertion, retain, extract_if, drain, clear, reserve, shrink, get_many_mut, iter_hash) for 6 element layouts incl. a ZST, hashes "
              "assigned by 13 plans (arbitrary position/tag collisions, duplicates of identical elements); compared step-for-step with a multiset model, "
              "plus find() of every stored element and I1-I5 after every call. distinct = table-state signature x operation kind"),
        lanes=dict(
            quick=lanes(("dbg", 6, 15000), ("generic", 5, 15000), ("rel", 3, 15000), ("native", 2, 15000)),
            thorough=lanes(("dbg", 16, 180000), ("generic", 16, 180000), ("rel", 8, 180000), ("native", 8, 180000), ("asan", 8, 120000), ("miri", 8, 120000)),
        ),
        require=["rehash_in_place", "resize_grow", "steps_with_tombstones", "steps_with_duplicates", "class_lt_group", "class_gt_group"],
        assumptions=COMMON_ASSUME,
    ),
    "C04": dict(
        level="fault_enumeration",
        rule=("for each sampled (state recipe, operation): dry-run the operation on a freshly built state to count invocations of every callback class "
              "(Hash, BuildHasher, Eq/Equivalent, Clone, Drop, closures, Into, extend-iterator next); then for every class and every k below the count "
              "(all k up to 10, sampled above) rebuild the state from its seed, arm the fuse (class,k), run the operation under catch_unwind and check: "
              "no monitor event (double drop, bad free, garbage reference), I1-I4, len()==iter().count()==keys found by get, contents unchanged when a hasher "
              "panicked while growing into a new allocation, no leak unless the panic came from Drop; then re-use, clear and drop the collection. "
              "States: fresh, small, full (next insert resizes), tombstone-saturated (next insert rehashes in place), tombstoned, random history; 27 operations; "
              "element pairs with and without drop glue. evaluations = fault points in which the fuse fired; distinct = (operation kind, callback class, path "
              "[plain/alloc/resize/rehash_in_place], drop-glue or not, recipe) cells in which a fuse fired, as a set"),
        lanes=dict(
            quick=lanes(("dbg", 6, 20000), ("generic", 4, 20000), ("rel", 2, 20000), ("asan", 4, 20000)),
            thorough=lanes(("dbg", 16, 240000), ("generic", 16, 240000), ("rel", 8, 240000), ("asan", 16, 240000), ("miri", 16, 300000)),
        ),
        require=["fired_hash", "fired_build_hasher", "fired_eq", "fired_clone", "fired_drop", "fired_closure", "fired_into", "fired_iter_next",
                 "fired_path_rehash_in_place", "fired_path_resize", "fired_no_drop_glue", "grow_hash_panic_contents_checked"],
        assumptions=COMMON_ASSUME + ["one injected panic at a time (a second panic while unwinding would abort by language rule, outside the property)"],
    ),
    "C08": dict(
        level="exploration",
        rule=("for 20 collection x element-layout instantiations (HashMap/HashSet/HashTable; element sizes 1,2,3,4,6,8,24,48,64,128,208) and 11 state recipes "
              "(fresh, with_capacity, small, one group, multi group, full, tombstone-saturated, tombstoned, grown-then-shrunk, drained, churned) x 13 hash plans: "
              "each inequality of the capacity contract is evaluated at the public API together with the allocator ledger: no allocation for new/default/"
              "with_capacity(0); capacity()>=len(); allocation_size()==bytes held; inserting capacity()-len() absent keys allocates nothing; reserve(n)/"
              "with_capacity(n) for n in boundary values around 7/8*2^k and 0..4*capacity; shrink_to(m)/shrink_to_fit keep contents, never enlarge, keep "
              "capacity()>=max(len,min(m,previous capacity)), free everything when empty and m=0, and end no larger than a fresh with_capacity(max(len,m)); "
              "clear/drain keep the block. evaluations = inequality groups evaluated; distinct = (collection, recipe, check kind, table class) as a set"),
        lanes=dict(
            quick=lanes(("dbg", 7, 12000), ("generic", 5, 12000), ("rel", 4, 12000)),
            thorough=lanes(("dbg", 16, 120000), ("generic", 16, 120000), ("rel", 8, 120000)),
        ),
        require=["room_fills", "states_with_tombstones", "recipe_Saturated", "recipe_Fresh", "recipe_Full"],
        assumptions=COMMON_ASSUME,
    ),
    "C03": dict(
        level="exploration",
        rule=("for every way out of a collection — map: remove, remove_entry, entry.remove, replace_entry_with, overwrite, clear, retain, extract_if, drain, into_iter, "
              "into_keys, into_values, shrink, shrink of an emptied table, clone_from into an occupied target, drop; set and table counterparts; zero-sized elements — "
              "started from 11 state recipes (incl. tombstoned and just-rehashed tables) and cut at every consumption point 0..len (all cuts for len<=24, sampled above), "
              "the element registry and the allocator ledger are evaluated when the collection and everything handed to the caller have been dropped: no serial dropped "
              "twice, none left live, values returned to the caller still live when received, every block freed once with its layout, allocation_size()==bytes held, no "
              "block for a never-used collection. evaluations = exits executed and settled; distinct = (exit, table class, tombstones, cut class, element layout)"),
        lanes=dict(
            quick=lanes(("dbg", 8, 12000), ("generic", 4, 12000), ("asan", 4, 12000)),
            thorough=lanes(("dbg", 16, 120000), ("generic", 16, 120000), ("rel", 8, 120000), ("asan", 16, 120000), ("miri", 16, 240000)),
        ),
        assumptions=COMMON_ASSUME,
    ),
    "C09": dict(
        level="exploration",
        rule=("every iterator of the statement (map: iter, iter_mut, keys, values, values_mut, into_iter, into_keys, into_values, drain; set: iter, into_iter, drain; "
              "table: iter, iter_mut, into_iter, drain; HashTable of zero-sized duplicates) over states from 11 recipes x 13 hash plans, driven for every prefix length "
              "p (all p for len<=20, sampled above) in 4 modes: next() to exhaustion + 3 extra calls, fold from p, for_each from p, clone at p with both copies run "
              "independently; size_hint()==(r,Some(r)) and len()==r are checked at every step and the yielded multiset is compared with the contents; default-"
              "constructed iterators must be empty. evaluations = iterator runs; distinct = (iterator kind, mode, table class, tombstones, prefix class, element)"),
        lanes=dict(
            quick=lanes(("dbg", 7, 12000), ("generic", 5, 12000), ("rel", 4, 12000)),
            thorough=lanes(("dbg", 16, 120000), ("generic", 16, 120000), ("rel", 8, 120000), ("miri", 8, 180000)),
        ),
        assumptions=COMMON_ASSUME,
    ),
    "C10": dict(
        level="exploration",
        rule=("retain / extract_if / drain on HashMap, HashSet and HashTable (7 instantiations) from 11 state recipes; the 'true' set ranges over every subset of the "
              "stored elements for len<=6 (len<=10 in the thorough tier) and random subsets above; extract_if and drain are dropped at every early-drop class (0, 1, n-1, "
              "random, exhausted). Checked: predicate argument multiset == contents (once per element), survivors == selected set, &mut edits persist, yielded == "
              "visited-and-true, unvisited elements stay, drain leaves an empty usable collection with its block. evaluations = operation runs checked; distinct = "
              "(collection, operation, cut class, table class, tombstones, subset class)"),
        lanes=dict(
            quick=lanes(("dbg", 7, 12000), ("generic", 5, 12000), ("rel", 4, 12000)),
            thorough=lanes(("dbg", 16, 120000), ("generic", 16, 120000), ("rel", 8, 120000), ("asan", 8, 60000)),
        ),
        assumptions=COMMON_ASSUME,
    ),
    "C11": dict(
        level="exploration",
        rule=("ordered pairs (target recipe, source recipe) over 11 x 11 state recipes with independently drawn hash plans and salts: clone()/clone_from on HashMap "
              "(4 element pairs), HashSet and HashTable; checked: result == source in both directions and by contents, every source key findable in the clone, number "
              "of Clone calls == source length and number of drops == old target length (registry), later mutation of either side invisible in the other; == between "
              "collections holding the same pairs built by different histories, capacities and differently seeded hashers, and != after one value changes. "
              "evaluations = pairs checked; distinct = (case, clone_from path [source unallocated / same buckets / different buckets], target class, tombstones, size order)"),
        lanes=dict(
            quick=lanes(("dbg", 7, 12000), ("generic", 5, 12000), ("rel", 4, 12000)),
            thorough=lanes(("dbg", 16, 120000), ("generic", 16, 120000), ("rel", 8, 120000), ("miri", 8, 180000)),
        ),
        require=["clone_from_source_unallocated", "clone_from_same_buckets", "clone_from_different_buckets", "eq_same_contents_checked"],
        assumptions=COMMON_ASSUME,
    ),
    "C07": dict(
        level="exploration",
        rule=("ordered pairs (A,B) of subsets of a 3..24-key universe, each realised by its own random history on top of a random state recipe (so equal sets differ in "
              "layout, capacity, tombstones and hasher state), with forced equal/subset/superset/complement relations mixed in: union, intersection, difference, "
              "symmetric_difference (next() with size_hint bracketing at every step, and fold/for_each), is_subset/is_superset/is_disjoint/== (both directions), the "
              "operators | & ^ - and |= &= ^= -= are compared with BTreeSet; plus 60-step point-operation histories (insert, replace, take, remove, get_or_insert, "
              "get_or_insert_with lawful and non-equivalent, contains/get, entry) against a set model that tracks which instance is stored. evaluations = pairs and "
              "point operations checked; distinct = (|A| vs |B| order, subset/superset/disjoint/empty flags, element type, universe) and (operation, presence)"),
        lanes=dict(
            quick=lanes(("dbg", 7, 12000), ("generic", 5, 12000), ("rel", 4, 12000)),
            thorough=lanes(("dbg", 16, 120000), ("generic", 16, 120000), ("rel", 8, 120000)),
        ),
        require=["A_smaller", "A_larger", "same_size", "refusals_checked"],
        assumptions=COMMON_ASSUME,
    ),
    "C12": dict(
        level="fault_enumeration",
        rule=("for 12 collection x element-layout instantiations (element sizes 1,2,3,6,8,16,24,48,128,208; align up to 64) and 11 state recipes: try_reserve(additional) "
              "for additional in 0..32, capacity-relative values, 7/8*2^k +-2 for k=2..63, isize::MAX+-1, usize::MAX-{0,1,len}, usize::MAX/size+-1, 2^40, 2^47 (a third "
              "of the boundary values per state in the quick tier) x allocator behaviour {obeys up to a 1 MiB cap, refuses the next request, refuses the one after}. "
              "Oracle per case: no panic/abort; Ok => capacity()>=len+additional; AllocError => a refusal with exactly that layout was logged in this call; "
              "CapacityOverflow => the allocator was not asked and the request is not plainly representable; no invalid layout reaches the allocator; after Err the "
              "contents, len(), capacity(), the live block (ptr,size,align) and the element registry are unchanged. evaluations = (state, additional, refusal) cases; "
              "distinct = (collection, recipe, refusal, outcome, magnitude class of additional, table class)"),
        lanes=dict(
            quick=lanes(("dbg", 7, 15000), ("generic", 5, 15000), ("rel", 4, 15000), ("nd", 1, 4000)),
            thorough=lanes(("dbg", 16, 180000), ("generic", 16, 180000), ("rel", 8, 180000), ("asan", 8, 60000), ("nd", 2, 60000)),
        ),
        require=["refused_request_reported", "capacity_overflow_reported", "oversize_request_refused_by_cap"],
        assumptions=COMMON_ASSUME + ["requests above 1 MiB are recorded and refused by the checking allocator, never backed by memory"],
    ),
    "C13": dict(
        level="exploration",
        rule=("insert/remove churn histories (4k-20k steps quick, 200k thorough) with a bound n in {1,3,7,8,14,28,100,1000} on the live size and no explicit reservation, "
              "patterns fifo/lifo/random/window/same-key toggle, 13 hash plans (well-mixed through all-colliding), HashMap/HashSet/HashTable; at EVERY step "
              "allocation_size() must stay <= 8x that of a fresh with_capacity(n); every 97 steps the dump is validated (I1-I5, >=1 EMPTY byte, growth_left not "
              "over-promised), the bucket count is compared with 8x capacity_to_buckets(n), and a lookup of an absent key must make <= buckets+16 equality calls "
              "(logical-step bound for termination; hashbrown's probe-length debug assertion is live). evaluations = churn steps; distinct = (collection, n, pattern, plan)"),
        lanes=dict(
            quick=lanes(("dbg", 7, 15000), ("generic", 5, 15000), ("rel", 4, 15000)),
            thorough=lanes(("dbg", 16, 240000), ("generic", 16, 240000), ("rel", 8, 240000)),
        ),
        require=["in_place_reclaims_observed", "samples_with_tombstones"],
        assumptions=COMMON_ASSUME + ["'eventually terminates' is restated as a bounded number of equality callbacks plus the structural precondition (an EMPTY control byte exists); a wall-clock watchdog firing is inconclusive"],
    ),
    "C14": dict(
        level="exploration",
        rule=("chains of 1-3 entry-style calls (entry, entry_ref, raw_entry_mut from_key/from_key_hashed_nocheck/from_hash with insert/insert_hashed_nocheck/"
              "insert_with_hasher/insert_key/replace_entry_with, raw_entry, rustc_entry, try_insert; all sub-paths incl. vacant entries dropped unused) started directly on "
              "freshly built target states: capacity()==len(), tombstone-saturated, unallocated, small, tombstoned, random history; 6 element layouts x 13 hash plans; "
              "each call compared with the association-list model (Occupied iff present, returned references/values, stored key instance) and followed by the full "
              "contents comparison and I1-I5. HashSet::entry is covered by the C07 point operations. evaluations = entry-style calls; distinct = state signature x operation"),
        lanes=dict(
            quick=lanes(("dbg", 7, 12000), ("generic", 5, 12000), ("rel", 4, 12000)),
            thorough=lanes(("dbg", 16, 120000), ("generic", 16, 120000), ("rel", 8, 120000), ("miri", 8, 180000)),
        ),
        require=["chains_started_at_capacity_eq_len", "chains_started_tombstone_saturated", "chains_started_unallocated", "rehash_in_place"],
        assumptions=COMMON_ASSUME,
    ),
    "C15": dict(
        level="exploration",
        rule=("HashMap::get_many_mut / get_many_key_value_mut and HashTable::get_many_mut for N=0..4 with request tuples containing present keys, absent keys and "
              "duplicates, on states from the recipes under position- and tag-colliding hash plans; the table variant also with sloppy equality closures (match by "
              "id modulo m) and foreign hashes, so that different hashes can resolve to one bucket. Oracle: the call panics iff (lawful case) two requests resolve to "
              "one entry; results are in request order, Some iff present; the addresses [p,p+size) of all returned references are pairwise disjoint in every case; "
              "sentinel values written through the references are found in exactly the requested entries (full model comparison). Miri's borrow tracker runs the same "
              "scenarios. evaluations = calls; distinct = (N, variant, duplicate, number present, element) and (N, sloppiness, element)"),
        lanes=dict(
            quick=lanes(("dbg", 6, 10000), ("generic", 3, 10000), ("rel", 3, 10000), ("miri", 4, 15000)),
            thorough=lanes(("dbg", 16, 120000), ("generic", 16, 120000), ("rel", 8, 120000), ("miri", 16, 240000)),
        ),
        require=["duplicate_panics_observed", "calls_returned", "sloppy_calls_returned"],
        assumptions=COMMON_ASSUME,
    ),
    "C16": dict(
        level="exploration",
        rule=("PARTIAL: the sending/sharing clause and the receiver-mutability slice of the borrow clause; variance and borrow lifetimes are not decided (DESIGN.md section 9). Keys, values, hashers and allocators of four marker "
              "kinds (Send+Sync, neither, Send-only, Sync-only) report the thread of every access (hash, eq, fmt, clone, &mut use, drop, build_hasher, allocate, deallocate) "
              "to a thread-confinement monitor. Each of 49 public types of hash_map / hash_set / hash_table (collections, all iterators, drains, extract_ifs, set-operation "
              "iterators, all entry types incl. raw and rustc entries, OccupiedError) is instantiated with one non-Send/Sync kind in one parameter position (K, V, S, A; plus an "
              "all-Send+Sync control) and offered to a second thread by value and by shared reference; whether the offer is taken is resolved by the compiler from X: Send / "
              "X: Sync (inherent method preferred over a blanket trait method), and when it is taken the other thread really uses the object. Violation = an access the kind "
              "forbids: neither-kind content touched on a foreign thread; Send-only content touched on a foreign thread while the home thread keeps access; Sync-only content "
              "used exclusively (by value, &mut, drop) on a foreign thread. No expected Send/Sync table is asserted. One slice of the borrow clause is observed the same way: "
              "10 methods that hand out mutable element access (HashMap iter_mut/values_mut/get_mut/get_key_value_mut/get_many_mut/retain, HashTable iter_mut/iter_hash_mut/"
              "find_mut/retain) are called through a SHARED reference to the collection while shared references to its elements are alive; a blanket fallback is selected "
              "unless the method accepts &self, and a violation is mutable access to an address that is also reachable through a live shared reference. "
              "evaluations = offers made; distinct = distinct (type, position, kind, sent, shared) cells and (method, access handed out) cells observed"),
        lanes=dict(
            quick=lanes(("dbg", 2, 4000), ("generic", 1, 4000), ("rel", 1, 4000)),
            thorough=lanes(("dbg", 4, 30000), ("generic", 2, 30000), ("rel", 2, 30000), ("tsan", 2, 60000), ("miri", 1, 120000)),
        ),
        require=["probes", "objects_the_compiler_let_cross_by_value", "objects_the_compiler_let_be_shared", "foreign_thread_accesses_observed_Ok",
                 "foreign_thread_accesses_observed_So", "foreign_thread_accesses_observed_Yo", "shared_receiver_offers"],
        assumptions=COMMON_ASSUME + ["only the sending/sharing clause is decided, on marker types placed in one parameter position at a time; the rayon adaptors are not covered (their constructors do not exist for non-Sync contents)"],
    ),
    "C17": dict(
        level="exploration",
        rule=("the real capacity_to_buckets, bucket_mask_to_capacity, TableLayout::calculate_layout_for, TableLayout::new and ProbeSeq (called through the verif hooks) "
              "are compared with u128 reference arithmetic: capacities 1..14 x element sizes 0..64, every capacity 15..2^27 (quick) / 15..2^32 (thorough, exhaustive "
              "sub-space), +-512 (quick) / +-4096 (thorough) around every 2^k and 7/8*2^k up to usize::MAX; layouts for sizes 0..64, 200, 4096, 2^20, isize::MAX/2+-1 x "
              "alignments 1..4096 (size a multiple of the alignment) x buckets 2^0..2^62; probe sequences for tables 2^0..2^20 (2^26 thorough) x every start position up "
              "to 2^16 buckets, sampled above; under both group widths (16 in lane dbg, 8 in lane generic). evaluations = function evaluations checked; distinct = "
              "distinct (function, result class) cells: (log2 buckets, element-size class), (size, align, log2 buckets) layout cells, table sizes probed"),
        lanes=dict(
            quick=lanes(("dbg", 16, 60000), ("generic", 16, 60000)),
            thorough=lanes(("dbg", 16, 600000), ("generic", 16, 600000), ("rel", 8, 600000)),
        ),
        coverage_extra=dict(exhaustive_subspaces=["thorough tier: capacity_to_buckets for every capacity in 1..2^32 (layout-independent for capacity >= 15; capacities < 15 x element sizes 0..=64)",
                                                  "probe sequence: every start position of every table size 2^0..2^16"]),
        assumptions=COMMON_ASSUME,
    ),
    "C18": dict(
        level="exploration",
        rule=("(a) the same seeded order-free HashMap/HashTable histories (same scenario indices, same seeds) are executed in lane dbg (16-byte SSE2 scanner) and lane "
              "generic (portable 8-byte scanner); each is checked against its model in its own lane, and the transcript digests (operation, return observation, final "
              "contents; no capacities, allocation sizes or iteration order) of every scenario are compared across the lanes by the driver. (b) every scanner primitive "
              "(match_tag, match_empty, match_empty_or_deleted, match_full, convert for rehash, aligned vs unaligned load, BitMask queries and iteration order) is "
              "compared with its byte-by-byte definition on all 2-byte windows at every position x 5 backgrounds x 16 tags (all 130 in the thorough tier, all 256x256 "
              "byte pairs) plus random groups; the portable tag match may additionally report a byte equal to tag^1 above a true match, nothing else. "
              "evaluations = primitive evaluations + model-checked calls; distinct = (position, tag, background) cells and table-state x operation signatures"),
        lanes=dict(
            quick=lanes(("dbg", 8, 120000), ("generic", 8, 120000), ("native", 8, 120000)),
            thorough=lanes(("dbg", 16, 1200000), ("generic", 16, 1200000), ("native", 16, 1200000), ("rel", 8, 1200000)),
        ),
        cross_lane=True,
        assumptions=COMMON_ASSUME + ["NEON and LSX scanners cannot be executed on x86_64 and are not covered", "`--cfg miri` selects the portable scanner and has no other effect on hashbrown"],
    ),
    "C05": dict(
        level="exploration",
        rule=("the HashMap and HashTable drivers (all public operations incl. reserve/shrink/rehash, entries, raw entries with lying hashers, retain/extract_if/drain, "
              "clone, get_many_mut) run with the Chaos plan: every hash is a fresh pseudo-random draw from a palette of 2..64 values (collisions and moves both happen) "
              "and Eq lies with probability 0/2/20/50 %; no result is compared with a model. Judged: sanitizer of the lane, allocator ledger, element registry "
              "(exactly-once drop at scenario end), I1-I4/I6 after every call, len()==iter().count()==number drained, no aliasing from get_many_mut, equality calls "
              "per lookup <= 2*(buckets+16), hashbrown's probe-length debug assertion. evaluations = API calls; distinct = table-state x operation signatures and "
              "(lie probability, palette) cells"),
        lanes=dict(
            quick=lanes(("dbg", 6, 12000), ("generic", 4, 12000), ("asan", 4, 12000), ("miri", 2, 12000)),
            thorough=lanes(("dbg", 16, 120000), ("generic", 16, 120000), ("rel", 8, 120000), ("asan", 16, 120000), ("miri", 16, 240000)),
        ),
        require=["rehash_in_place", "resize_grow", "steps_with_tombstones"],
        assumptions=COMMON_ASSUME + ["termination is restated as a bound on equality callbacks per lookup; a watchdog firing is inconclusive"],
    ),
    "C19": dict(
        level="exploration",
        rule=("real rayon thread pools (1,2,3,4,8,16,32,64 threads) drive par_iter, par_keys, par_values, par_iter_mut, par_values_mut, into_par_iter, par_drain of maps "
              "(recipe states and tables up to 20000 elements with holes), sets and tables into an instrumented UnindexedConsumer whose folders log what they receive, "
              "leaf by leaf, with injected yields and sleeps; the log is checked offline: every stored element delivered exactly once. Consumers that turn full() after k "
              "items (every k for small tables) on into_par_iter/par_drain: delivered set is duplicate-free, the rest is dropped exactly once (element registry), par_drain "
              "leaves an empty usable collection. The real RawIterRange::split is driven along explicit decision trees (every bit-string tree for tables of <= 6 groups, "
              "random above) and the leaves must partition the FULL buckets. par_extend/from_par_iter/par_eq/parallel set operations are compared with the sequential "
              "results. TSan (lane tsan) and Miri's race detector (thorough) watch the same workloads. evaluations = parallel drives + split trees + equivalence cases; "
              "distinct = distinct observed partitions (multiset of leaf sizes) x iterator kind x pool size, distinct split-tree shapes"),
        lanes=dict(
            quick=lanes(("dbg", 6, 12000), ("generic", 4, 12000), ("tsan", 6, 12000)),
            thorough=lanes(("dbg", 16, 120000), ("generic", 16, 120000), ("rel", 8, 120000), ("tsan", 16, 120000), ("miri", 8, 240000)),
        ),
        require=["runs_with_real_splits", "runs_stopped_early", "tables_with_all_split_trees"],
        assumptions=COMMON_ASSUME + ["real schedules are sampled, not enumerated; the split-tree enumeration is exhaustive only for tables of <= 6 scan groups"],
    ),
    "C20": dict(
        level="exploration",
        rule=("a minimal in-harness serde Serializer (token list) and Deserializer (MapAccess/SeqAccess with programmable size_hint and failure position) drive "
              "hashbrown's Serialize/Deserialize impls for HashMap (3 element pairs + zero-sized) and HashSet (3 element types; deserialize and deserialize_in_place) "
              "built from 13 state recipes: deserialize(serialize(x))==x both ways and by contents for 12 claimed size hints (None, 0..usize::MAX); inputs with "
              "repeated keys keep the last value; a failure injected at every element position is returned as that error with no element or block leaked or dropped "
              "twice (registry, ledger); the bytes held and the largest request seen by the allocator when the first element is requested are bounded by a fresh "
              "with_capacity(65536) for every claimed hint (an oversize request would be refused by the allocator and surface as an abort of the shard). "
              "evaluations = (de)serialisations checked; distinct = (case, hint, emptiness, element) cells"),
        lanes=dict(
            quick=lanes(("dbg", 8, 10000), ("rel", 2, 10000), ("asan", 4, 10000)),
            thorough=lanes(("dbg", 16, 120000), ("asan", 16, 120000), ("miri", 8, 180000)),
        ),
        require=["injected_errors_returned", "inputs_with_repeated_keys"],
        assumptions=COMMON_ASSUME,
    ),
}
