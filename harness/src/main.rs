//! hbverif: runtime monitors for hashbrown. One subcommand per property;
//! each runs seeded scenarios for its shard and writes a summary for ./check.

#[macro_use]
pub mod util;
pub mod ckalloc;
pub mod ctx;
pub mod elem;
pub mod fuse;
pub mod mapdrv;
pub mod plan;
pub mod props;
pub mod states;
pub mod tabledrv;
pub mod validate;

fn main() {
    let args: Vec<String> = std::env::args().skip(1).collect();
    util::install_quiet_panic_hook();
    let mut c = ctx::parse_args(&args);
    if c.lane == "miri" {
        util::SLOW_LANE.store(true, std::sync::atomic::Ordering::SeqCst);
    }
    if c.lane == "asan" || c.lane == "miri" {
        // the sanitizer's own bounds/lifetime tracking is what is under test there
        ckalloc::set_guarded(false);
    }
    let ok = props::dispatch(&mut c);
    if !ok {
        eprintln!("hbverif: unknown property {}", c.prop);
        std::process::exit(2);
    }
    c.fail_if_violated();
    c.write_summary(None);
}
