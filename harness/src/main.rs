//! hbverif: runtime monitors for hashbrown. One subcommand per property;
//! each runs seeded scenarios for its shard and writes a summary for ./check.

#[macro_use]
pub mod util;
pub mod ckalloc;
pub mod ctx;
pub mod elem;
pub mod fuse;
pub mod mapdrv;
pub mod plan;
pub mod props;
pub mod states;
pub mod tabledrv;
pub mod validate;

/// The process-global allocator: the system allocator plus a watch on the largest single request, switched on by a
/// check around a call (C20: a deserializer's claimed length must not drive ANY allocation, also not one that bypasses
/// the collection's own allocator, such as a staging buffer).
struct WatchAlloc;
unsafe impl std::alloc::GlobalAlloc for WatchAlloc {
    unsafe fn alloc(&self, l: std::alloc::Layout) -> *mut u8 {
        util::galloc_note(l.size());
        std::alloc::System.alloc(l)
    }
    unsafe fn dealloc(&self, p: *mut u8, l: std::alloc::Layout) {
        std::alloc::System.dealloc(p, l)
    }
    unsafe fn alloc_zeroed(&self, l: std::alloc::Layout) -> *mut u8 {
        util::galloc_note(l.size());
        std::alloc::System.alloc_zeroed(l)
    }
    unsafe fn realloc(&self, p: *mut u8, l: std::alloc::Layout, new_size: usize) -> *mut u8 {
        util::galloc_note(new_size);
        std::alloc::System.realloc(p, l, new_size)
    }
}
#[global_allocator]
static GLOBAL: WatchAlloc = WatchAlloc;

fn main() {
    let args: Vec<String> = std::env::args().skip(1).collect();
    util::install_quiet_panic_hook();
    let mut c = ctx::parse_args(&args);
    if c.lane == "miri" {
        util::SLOW_LANE.store(true, std::sync::atomic::Ordering::SeqCst);
    }
    if c.lane == "asan" || c.lane == "miri" {
        // the sanitizer's own bounds/lifetime tracking is what is under test there
        ckalloc::set_guarded(false);
    }
    let ok = props::dispatch(&mut c);
    if !ok {
        eprintln!("hbverif: unknown property {}", c.prop);
        std::process::exit(2);
    }
    c.fail_if_violated();
    c.write_summary(None);
}
