//! C16 (first clause only): a collection, iterator, drain or entry can be sent to / shared with another
//! thread only when the key, value, hasher and allocator types it gives access to allow it.
//!
//! What is observed at run time: **thread confinement of marker-typed contents**. Keys, values, hashers and
//! allocators come in four kinds — `Ok` (Send + Sync), `Ns` (neither), `So` (Send, not Sync), `Yo` (Sync, not
//! Send) — and every access to one of them (hashing, comparing, formatting, cloning, `&mut` use, drop,
//! `build_hasher`, `allocate`/`deallocate`) reports the accessing thread to the monitor. For every public
//! type `X` of hash_map / hash_set / hash_table and every instantiation that puts one non-`Ok` kind into one
//! parameter position, the harness offers `X` to another thread twice: by value ("send") and by shared
//! reference ("share"). Whether the offer is taken is decided by the compiler from `X: Send` / `X: Sync`
//! (inherent-method-over-trait-method resolution, so the same program compiles whatever the answer is); when it
//! is taken, the other thread really uses the object, and the monitor sees every content access made there.
//! A violation is an access the content's kind forbids:
//!   * `Ns` content touched on a foreign thread in any way;
//!   * `So` content touched on a foreign thread while the home thread still has access to it
//!     (the object was shared, or is a shared-borrow iterator);
//!   * `Yo` content used exclusively (`&mut`, by value, dropped) on a foreign thread.
//! No expected Send/Sync table is asserted: only real accesses are judged, so a stricter-than-necessary bound
//! is not an alarm and a relaxed bound is one exactly when it lets a forbidden access happen.
//!
//! Out of reach (stated in DESIGN.md §9): variance and borrow lifetimes — a violating program does not compile
//! on a tree where they hold, and no compile-both-ways probe exists for them; the rayon adaptors (their
//! constructors do not exist for non-Sync contents).

use crate::ctx::Ctx;
use crate::util::{Json, Rng};
use allocator_api2::alloc::{AllocError, Allocator};
use std::alloc::Layout;
use std::cell::Cell;
use std::hash::{BuildHasher, Hash, Hasher};
use std::marker::PhantomData;
use std::ptr::NonNull;
use std::sync::atomic::{AtomicU64, AtomicU8, Ordering};
use std::sync::Mutex;

// ---------------------------------------------------------------------------------------------------
// kinds

pub trait Marker: 'static {
    const KIND: u8;
    const NAME: &'static str;
}
pub struct MOk;
pub struct MNs(PhantomData<*const ()>);
pub struct MSo(PhantomData<Cell<()>>);
pub struct MYo(PhantomData<*const ()>);
// Sync but not Send: the marker itself holds no data, so sharing it is trivially fine
unsafe impl Sync for MYo {}
impl Marker for MOk {
    const KIND: u8 = 0;
    const NAME: &'static str = "Ok";
}
impl Marker for MNs {
    const KIND: u8 = 1;
    const NAME: &'static str = "Ns";
}
impl Marker for MSo {
    const KIND: u8 = 2;
    const NAME: &'static str = "So";
}
impl Marker for MYo {
    const KIND: u8 = 3;
    const NAME: &'static str = "Yo";
}

// ---------------------------------------------------------------------------------------------------
// the monitor

const HANDOVER: u8 = 1; // the object was moved to the other thread; the home thread has no access meanwhile
const SHARING: u8 = 2; // the home thread keeps access (shared reference, or a shared-borrow iterator was moved)

static HOME: AtomicU64 = AtomicU64::new(0);
static MODE: AtomicU8 = AtomicU8::new(0);
static NEXT_TOKEN: AtomicU64 = AtomicU64::new(1);
static FOREIGN: [AtomicU64; 4] = [AtomicU64::new(0), AtomicU64::new(0), AtomicU64::new(0), AtomicU64::new(0)];
static LABEL: Mutex<String> = Mutex::new(String::new());

thread_local! {
    static TOKEN: u64 = NEXT_TOKEN.fetch_add(1, Ordering::Relaxed);
}
fn token() -> u64 {
    TOKEN.with(|t| *t)
}

fn touch(kind: u8, excl: bool, what: &'static str, role: &'static str) {
    touch_from(HOME.load(Ordering::Relaxed), kind, excl, what, role)
}

/// `home`: the thread the content was created on (a value that is not Send may of course be created, used and
/// dropped on any one thread; only leaving that thread is judged).
fn touch_from(home: u64, kind: u8, excl: bool, what: &'static str, role: &'static str) {
    if token() == home {
        return;
    }
    let mode = MODE.load(Ordering::Relaxed);
    if mode == 0 {
        return;
    }
    FOREIGN[kind as usize].fetch_add(1, Ordering::Relaxed);
    let bad = match kind {
        1 => true,
        2 => mode == SHARING,
        3 => excl,
        _ => false,
    };
    if bad {
        let label = LABEL.lock().map(|l| l.clone()).unwrap_or_default();
        let k = ["Ok (Send+Sync)", "Ns (neither Send nor Sync)", "So (Send, not Sync)", "Yo (Sync, not Send)"][kind as usize];
        crate::viol!(
            "{}: a {} of kind {} was {} ({}) on another thread while {}",
            label,
            role,
            k,
            if excl { "used exclusively" } else { "read" },
            what,
            if mode == SHARING { "the home thread kept access to it" } else { "the object had been moved there" }
        );
    }
}

// ---------------------------------------------------------------------------------------------------
// contents

pub struct El<M: Marker>(pub u32, u64, PhantomData<M>);
impl<M: Marker> El<M> {
    pub fn new(id: u32) -> Self {
        El(id, token(), PhantomData)
    }
    fn t(&self, excl: bool, what: &'static str) {
        touch_from(self.1, M::KIND, excl, what, "key/value");
    }
    pub fn sh(&self) {
        self.t(false, "read through &");
    }
    pub fn ex(&mut self) {
        self.t(true, "&mut");
    }
}
impl<M: Marker> Hash for El<M> {
    fn hash<H: Hasher>(&self, h: &mut H) {
        self.t(false, "Hash::hash");
        h.write_u32(self.0);
    }
}
impl<M: Marker> PartialEq for El<M> {
    fn eq(&self, o: &Self) -> bool {
        self.t(false, "PartialEq::eq");
        o.t(false, "PartialEq::eq");
        self.0 == o.0
    }
}
impl<M: Marker> Eq for El<M> {}
impl<M: Marker> Clone for El<M> {
    fn clone(&self) -> Self {
        self.t(false, "Clone::clone");
        El::new(self.0)
    }
}
impl<M: Marker> std::fmt::Debug for El<M> {
    fn fmt(&self, f: &mut std::fmt::Formatter<'_>) -> std::fmt::Result {
        self.t(false, "Debug::fmt");
        write!(f, "{}", self.0)
    }
}
impl<M: Marker> Drop for El<M> {
    fn drop(&mut self) {
        self.t(true, "dropped");
    }
}
impl<M: Marker> From<&El<M>> for El<M> {
    fn from(o: &El<M>) -> Self {
        o.t(false, "From<&K>");
        El::new(o.0)
    }
}

pub struct Hs<M: Marker>(u64, PhantomData<M>);
impl<M: Marker> Hs<M> {
    fn new(salt: u64) -> Self {
        Hs(salt, PhantomData)
    }
}
pub struct IdHasher(u64);
impl Hasher for IdHasher {
    fn finish(&self) -> u64 {
        crate::util::mix(self.0)
    }
    fn write(&mut self, bytes: &[u8]) {
        for b in bytes {
            self.0 = self.0.rotate_left(8) ^ *b as u64;
        }
    }
    fn write_u32(&mut self, v: u32) {
        self.0 ^= v as u64;
    }
}
impl<M: Marker> BuildHasher for Hs<M> {
    type Hasher = IdHasher;
    fn build_hasher(&self) -> IdHasher {
        touch(M::KIND, false, "BuildHasher::build_hasher", "hasher");
        IdHasher(self.0)
    }
}
impl<M: Marker> Drop for Hs<M> {
    fn drop(&mut self) {
        touch(M::KIND, true, "dropped", "hasher");
    }
}

pub struct Al<M: Marker>(PhantomData<M>);
impl<M: Marker> Al<M> {
    fn new() -> Self {
        Al(PhantomData)
    }
}
unsafe impl<M: Marker> Allocator for Al<M> {
    fn allocate(&self, layout: Layout) -> Result<NonNull<[u8]>, AllocError> {
        touch(M::KIND, false, "Allocator::allocate", "allocator");
        if layout.size() == 0 {
            return Err(AllocError);
        }
        let p = unsafe { std::alloc::alloc(layout) };
        NonNull::new(p).map(|p| NonNull::slice_from_raw_parts(p, layout.size())).ok_or(AllocError)
    }
    unsafe fn deallocate(&self, ptr: NonNull<u8>, layout: Layout) {
        touch(M::KIND, false, "Allocator::deallocate", "allocator");
        std::alloc::dealloc(ptr.as_ptr(), layout);
    }
}
impl<M: Marker> Drop for Al<M> {
    fn drop(&mut self) {
        touch(M::KIND, true, "dropped", "allocator");
    }
}

// ---------------------------------------------------------------------------------------------------
// the offers: taken only if the compiler proves X: Send / X: Sync for the concrete X

pub struct SendProbe<X>(pub Option<X>);
impl<X: Send> SendProbe<X> {
    pub fn cross(&mut self, f: fn(X)) -> bool {
        let x = self.0.take().unwrap();
        std::thread::scope(|s| {
            s.spawn(move || f(x));
        });
        true
    }
}
pub trait NoSend<X> {
    fn cross(&mut self, f: fn(X)) -> bool;
}
impl<X> NoSend<X> for SendProbe<X> {
    fn cross(&mut self, f: fn(X)) -> bool {
        f(self.0.take().unwrap());
        false
    }
}
pub struct SyncProbe<'x, X>(pub &'x X);
impl<'x, X: Sync> SyncProbe<'x, X> {
    pub fn share(&self, f: fn(&X)) -> bool {
        let r = self.0;
        std::thread::scope(|s| {
            s.spawn(move || f(r));
        });
        true
    }
}
pub trait NoSync<X> {
    fn share(&self, f: fn(&X)) -> bool;
}
impl<'x, X> NoSync<X> for SyncProbe<'x, X> {
    fn share(&self, f: fn(&X)) -> bool {
        f(self.0);
        false
    }
}

struct Obs {
    probes: u64,
    sent: u64,
    shared: u64,
    rows: Vec<String>,
}

fn note(c: &mut Ctx, o: &mut Obs, name: &str, pos: &str, kind: &str, sent: bool, shared: bool) {
    o.probes += 1;
    o.sent += sent as u64;
    o.shared += shared as u64;
    c.evaluations += 1;
    c.sig_parts(&[crate::ctx::prop_salt(name), crate::ctx::prop_salt(pos), crate::ctx::prop_salt(kind), sent as u64, shared as u64]);
    o.rows.push(format!("{} {}={} send={} share={}", name, pos, kind, sent as u8, shared as u8));
}

fn set_label(s: String) {
    if let Ok(mut l) = LABEL.lock() {
        *l = s;
    }
}

/// One probe: offer `$make` (built from a fresh collection bound to `$m`) by reference, then by value.
macro_rules! probe {
    ($c:expr, $o:expr, $pos:expr, $kind:expr, $name:expr, $class:expr, $m:ident : $T:ty = $init:expr => $make:expr, $owned:expr, $shared:expr) => {{
        #[allow(unused_mut)]
        let mut $m: $T = $init;
        set_label(format!("{} with {} of kind {}", $name, $pos, $kind));
        let x = $make;
        MODE.store(SHARING, Ordering::SeqCst);
        let shared = SyncProbe(&x).share($shared);
        MODE.store($class, Ordering::SeqCst);
        let sent = SendProbe(Some(x)).cross($owned);
        MODE.store(0, Ordering::SeqCst);
        note($c, $o, $name, $pos, $kind, sent, shared);
    }};
}

fn mk_map<MK: Marker, MV: Marker, MS: Marker, MA: Marker>(n: u32) -> hashbrown::HashMap<El<MK>, El<MV>, Hs<MS>, Al<MA>> {
    let mut m = hashbrown::HashMap::with_hasher_in(Hs::new(n as u64), Al::new());
    for i in 0..n + 6 {
        m.insert(El::new(i), El::new(i + 100));
    }
    for i in n..n + 6 {
        m.remove(&El::new(i));
    }
    m
}
fn mk_set<MK: Marker, MS: Marker, MA: Marker>(n: u32, from: u32) -> hashbrown::HashSet<El<MK>, Hs<MS>, Al<MA>> {
    let mut m = hashbrown::HashSet::with_hasher_in(Hs::new(n as u64), Al::new());
    for i in from..from + n + 3 {
        m.insert(El::new(i));
    }
    for i in from + n..from + n + 3 {
        m.remove(&El::new(i));
    }
    m
}
fn th<MK: Marker>(e: &El<MK>) -> u64 {
    e.sh();
    crate::util::mix(e.0 as u64)
}
fn mk_table<MK: Marker, MA: Marker>(n: u32) -> hashbrown::HashTable<El<MK>, Al<MA>> {
    let mut t = hashbrown::HashTable::new_in(Al::new());
    for i in 0..n {
        t.insert_unique(crate::util::mix(i as u64), El::new(i), th::<MK>);
    }
    t
}

macro_rules! map_probes {
    ($c:expr, $o:expr, $n:expr, $pos:expr, $kind:expr, $MK:ty, $MV:ty, $MS:ty, $MA:ty) => {{
        #[allow(unused_imports)]
        use hashbrown::hash_map::{Entry, EntryRef, RawEntryMut, RustcEntry};
        type K = El<$MK>;
        type V = El<$MV>;
        type Map = hashbrown::HashMap<K, V, Hs<$MS>, Al<$MA>>;
        let n: u32 = $n;
        macro_rules! p {
            ($name:expr, $class:expr, $m:ident => $make:expr, $owned:expr, $shared:expr) => {
                probe!($c, $o, $pos, $kind, $name, $class, $m: Map = mk_map::<$MK, $MV, $MS, $MA>(n) => $make, $owned, $shared)
            };
        }
        p!("HashMap", HANDOVER, m => m,
            |mut x| {
                x.insert(K::new(900), V::new(901));
                let _ = x.get(&K::new(1));
                for (k, v) in x.iter_mut() { k.sh(); v.ex(); }
                x.remove(&K::new(0));
                drop(x);
            },
            |r| {
                let _ = r.get(&K::new(1));
                let _ = r.contains_key(&K::new(5000));
                for (k, v) in r.iter() { k.sh(); v.sh(); }
                let _ = format!("{:?}", r);
            });
        p!("hash_map::Iter", SHARING, m => m.iter(),
            |x| { for (k, v) in x { k.sh(); v.sh(); } },
            |r| { for (k, v) in r.clone() { k.sh(); v.sh(); } let _ = format!("{:?}", r); });
        p!("hash_map::Keys", SHARING, m => m.keys(),
            |x| { for k in x { k.sh(); } },
            |r| { for k in r.clone() { k.sh(); } let _ = format!("{:?}", r); });
        p!("hash_map::Values", SHARING, m => m.values(),
            |x| { for v in x { v.sh(); } },
            |r| { for v in r.clone() { v.sh(); } let _ = format!("{:?}", r); });
        p!("hash_map::IterMut", HANDOVER, m => m.iter_mut(),
            |x| { for (k, v) in x { k.sh(); v.ex(); } },
            |r| { let _ = format!("{:?}", r); let _ = r.len(); });
        p!("hash_map::ValuesMut", HANDOVER, m => m.values_mut(),
            |x| { for v in x { v.ex(); } },
            |r| { let _ = format!("{:?}", r); let _ = r.len(); });
        p!("hash_map::IntoIter", HANDOVER, m => m.into_iter(),
            |x| { for (mut k, mut v) in x { k.ex(); v.ex(); } },
            |r| { let _ = format!("{:?}", r); let _ = r.len(); });
        p!("hash_map::IntoKeys", HANDOVER, m => m.into_keys(),
            |mut x| { if let Some(mut k) = x.next() { k.ex(); } drop(x); },
            |r| { let _ = format!("{:?}", r); let _ = r.len(); });
        p!("hash_map::IntoValues", HANDOVER, m => m.into_values(),
            |mut x| { if let Some(mut v) = x.next() { v.ex(); } drop(x); },
            |r| { let _ = format!("{:?}", r); let _ = r.len(); });
        p!("hash_map::Drain", HANDOVER, m => m.drain(),
            |mut x| { if let Some((mut k, mut v)) = x.next() { k.ex(); v.ex(); } drop(x); },
            |r| { let _ = format!("{:?}", r); let _ = r.len(); });
        p!("hash_map::ExtractIf", HANDOVER, m => m.extract_if((|k, v| { k.sh(); v.ex(); k.0 % 2 == 0 }) as fn(&K, &mut V) -> bool),
            |x| { for (mut k, mut v) in x { k.ex(); v.ex(); } },
            |r| { let _ = r.size_hint(); });
        p!("hash_map::Entry", HANDOVER, m => m.entry(K::new(1)),
            |x| { match x { Entry::Occupied(mut o) => { o.key().sh(); o.get_mut().ex(); let _ = o.remove(); } Entry::Vacant(v) => { v.insert(V::new(7)); } } },
            |r| { let _ = format!("{:?}", r); r.key().sh(); });
        p!("hash_map::OccupiedEntry", HANDOVER, m => match m.entry(K::new(1)) { Entry::Occupied(o) => o, Entry::Vacant(_) => unreachable!() },
            |mut x| { x.key().sh(); x.get_mut().ex(); let _ = x.insert(V::new(8)); let _ = x.remove_entry(); },
            |r| { let _ = format!("{:?}", r); r.key().sh(); r.get().sh(); });
        p!("hash_map::VacantEntry", HANDOVER, m => match m.entry(K::new(5000)) { Entry::Vacant(v) => v, Entry::Occupied(_) => unreachable!() },
            |x| { x.key().sh(); x.insert(V::new(8)).ex(); },
            |r| { let _ = format!("{:?}", r); r.key().sh(); });
        p!("hash_map::OccupiedError", HANDOVER, m => m.try_insert(K::new(1), V::new(77)).unwrap_err(),
            |mut x| { x.value.ex(); x.entry.get_mut().ex(); },
            |r| { let _ = format!("{:?}", r); r.value.sh(); r.entry.get().sh(); });
        {
            let key = K::new(2);
            let absent = K::new(6000);
            p!("hash_map::EntryRef", HANDOVER, m => m.entry_ref(&key),
                |x| { match x { EntryRef::Occupied(mut o) => { o.get_mut().ex(); let _ = o.remove(); } EntryRef::Vacant(v) => { v.insert(V::new(7)); } } },
                |r| { let _ = format!("{:?}", r); });
            p!("hash_map::VacantEntryRef", HANDOVER, m => match m.entry_ref(&absent) { EntryRef::Vacant(v) => v, EntryRef::Occupied(_) => unreachable!() },
                |x| { x.key().sh(); x.insert(V::new(8)).ex(); },
                |r| { let _ = format!("{:?}", r); r.key().sh(); });
        }
        p!("hash_map::RawEntryBuilder", SHARING, m => m.raw_entry(),
            |x| { if let Some((k, v)) = x.from_key(&K::new(1)) { k.sh(); v.sh(); } },
            |r| { let _ = format!("{:?}", r); });
        p!("hash_map::RawEntryBuilderMut", HANDOVER, m => m.raw_entry_mut(),
            |x| { match x.from_key(&K::new(1)) { RawEntryMut::Occupied(mut o) => { o.get_mut().ex(); let _ = o.remove(); } RawEntryMut::Vacant(v) => { v.insert(K::new(1), V::new(2)); } } },
            |r| { let _ = format!("{:?}", r); });
        p!("hash_map::RawEntryMut", HANDOVER, m => m.raw_entry_mut().from_key(&K::new(1)),
            |x| { match x { RawEntryMut::Occupied(mut o) => { o.key().sh(); o.get_mut().ex(); let _ = o.remove_entry(); } RawEntryMut::Vacant(v) => { v.insert(K::new(1), V::new(2)); } } },
            |r| { let _ = format!("{:?}", r); });
        p!("hash_map::RawOccupiedEntryMut", HANDOVER, m => match m.raw_entry_mut().from_key(&K::new(1)) { RawEntryMut::Occupied(o) => o, RawEntryMut::Vacant(_) => unreachable!() },
            |mut x| { x.key_mut().ex(); x.get_mut().ex(); let _ = x.remove(); },
            |r| { let _ = format!("{:?}", r); r.key().sh(); r.get().sh(); });
        p!("hash_map::RawVacantEntryMut", HANDOVER, m => match m.raw_entry_mut().from_key(&K::new(7000)) { RawEntryMut::Vacant(v) => v, RawEntryMut::Occupied(_) => unreachable!() },
            |x| { let (k, v) = x.insert(K::new(7000), V::new(1)); k.ex(); v.ex(); },
            |r| { let _ = format!("{:?}", r); });
        p!("hash_map::RustcEntry", HANDOVER, m => m.rustc_entry(K::new(1)),
            |x| { match x { RustcEntry::Occupied(mut o) => { o.key().sh(); o.get_mut().ex(); let _ = o.remove(); } RustcEntry::Vacant(v) => { v.insert(V::new(7)); } } },
            |r| { let _ = format!("{:?}", r); });
        p!("hash_map::RustcOccupiedEntry", HANDOVER, m => match m.rustc_entry(K::new(1)) { RustcEntry::Occupied(o) => o, RustcEntry::Vacant(_) => unreachable!() },
            |mut x| { x.key().sh(); x.get_mut().ex(); let _ = x.remove_entry(); },
            |r| { let _ = format!("{:?}", r); r.key().sh(); r.get().sh(); });
        p!("hash_map::RustcVacantEntry", HANDOVER, m => match m.rustc_entry(K::new(7000)) { RustcEntry::Vacant(v) => v, RustcEntry::Occupied(_) => unreachable!() },
            |x| { x.key().sh(); x.insert(V::new(1)).ex(); },
            |r| { let _ = format!("{:?}", r); r.key().sh(); });
    }};
}

macro_rules! set_probes {
    ($c:expr, $o:expr, $n:expr, $pos:expr, $kind:expr, $MK:ty, $MS:ty, $MA:ty) => {{
        #[allow(unused_imports)]
        use hashbrown::hash_set::Entry;
        type K = El<$MK>;
        type Set = hashbrown::HashSet<K, Hs<$MS>, Al<$MA>>;
        let n: u32 = $n;
        macro_rules! p {
            ($name:expr, $class:expr, $m:ident => $make:expr, $owned:expr, $shared:expr) => {
                probe!($c, $o, $pos, $kind, $name, $class, $m: Set = mk_set::<$MK, $MS, $MA>(n, 0) => $make, $owned, $shared)
            };
        }
        p!("HashSet", HANDOVER, m => m,
            |mut x| { x.insert(K::new(900)); let _ = x.contains(&K::new(1)); x.remove(&K::new(0)); drop(x); },
            |r| { let _ = r.get(&K::new(1)); for k in r.iter() { k.sh(); } let _ = format!("{:?}", r); });
        p!("hash_set::Iter", SHARING, m => m.iter(),
            |x| { for k in x { k.sh(); } },
            |r| { for k in r.clone() { k.sh(); } let _ = format!("{:?}", r); });
        p!("hash_set::IntoIter", HANDOVER, m => m.into_iter(),
            |x| { for mut k in x { k.ex(); } },
            |r| { let _ = format!("{:?}", r); let _ = r.len(); });
        p!("hash_set::Drain", HANDOVER, m => m.drain(),
            |mut x| { if let Some(mut k) = x.next() { k.ex(); } drop(x); },
            |r| { let _ = format!("{:?}", r); let _ = r.len(); });
        p!("hash_set::ExtractIf", HANDOVER, m => m.extract_if((|k| { k.sh(); k.0 % 2 == 0 }) as fn(&K) -> bool),
            |x| { for mut k in x { k.ex(); } },
            |r| { let _ = r.size_hint(); });
        {
            let other: Set = mk_set::<$MK, $MS, $MA>(n, n / 2);
            p!("hash_set::Union", SHARING, m => m.union(&other),
                |x| { for k in x { k.sh(); } },
                |r| { for k in r.clone() { k.sh(); } let _ = format!("{:?}", r); });
            p!("hash_set::Intersection", SHARING, m => m.intersection(&other),
                |x| { for k in x { k.sh(); } },
                |r| { for k in r.clone() { k.sh(); } let _ = format!("{:?}", r); });
            p!("hash_set::Difference", SHARING, m => m.difference(&other),
                |x| { for k in x { k.sh(); } },
                |r| { for k in r.clone() { k.sh(); } let _ = format!("{:?}", r); });
            p!("hash_set::SymmetricDifference", SHARING, m => m.symmetric_difference(&other),
                |x| { for k in x { k.sh(); } },
                |r| { for k in r.clone() { k.sh(); } let _ = format!("{:?}", r); });
        }
        p!("hash_set::Entry", HANDOVER, m => m.entry(K::new(1)),
            |x| { match x { Entry::Occupied(o) => { o.get().sh(); let mut k = o.remove(); k.ex(); } Entry::Vacant(v) => { v.insert(); } } },
            |r| { let _ = format!("{:?}", r); r.get().sh(); });
        p!("hash_set::OccupiedEntry", HANDOVER, m => match m.entry(K::new(1)) { Entry::Occupied(o) => o, Entry::Vacant(_) => unreachable!() },
            |x| { x.get().sh(); let mut k = x.remove(); k.ex(); },
            |r| { let _ = format!("{:?}", r); r.get().sh(); });
        p!("hash_set::VacantEntry", HANDOVER, m => match m.entry(K::new(5000)) { Entry::Vacant(v) => v, Entry::Occupied(_) => unreachable!() },
            |x| { x.get().sh(); x.insert(); },
            |r| { let _ = format!("{:?}", r); r.get().sh(); });
    }};
}

macro_rules! table_probes {
    ($c:expr, $o:expr, $n:expr, $pos:expr, $kind:expr, $MK:ty, $MA:ty) => {{
        #[allow(unused_imports)]
        use hashbrown::hash_table::Entry;
        type K = El<$MK>;
        type Table = hashbrown::HashTable<K, Al<$MA>>;
        let n: u32 = $n;
        let h1 = crate::util::mix(1);
        let _ = h1;
        macro_rules! p {
            ($name:expr, $class:expr, $m:ident => $make:expr, $owned:expr, $shared:expr) => {
                probe!($c, $o, $pos, $kind, $name, $class, $m: Table = mk_table::<$MK, $MA>(n) => $make, $owned, $shared)
            };
        }
        p!("HashTable", HANDOVER, m => m,
            |mut x| {
                x.insert_unique(crate::util::mix(900), K::new(900), th::<$MK>);
                if let Some(e) = x.find_mut(crate::util::mix(1), |e| e.0 == 1) { e.ex(); }
                for e in x.iter_mut() { e.ex(); }
                drop(x);
            },
            |r| { if let Some(e) = r.find(crate::util::mix(1), |e| e.0 == 1) { e.sh(); } for e in r.iter() { e.sh(); } let _ = format!("{:?}", r); });
        p!("hash_table::Iter", SHARING, m => m.iter(),
            |x| { for e in x { e.sh(); } },
            |r| { for e in r.clone() { e.sh(); } let _ = format!("{:?}", r); });
        p!("hash_table::IterMut", HANDOVER, m => m.iter_mut(),
            |x| { for e in x { e.ex(); } },
            |r| { let _ = format!("{:?}", r); let _ = r.len(); });
        p!("hash_table::IterHash", SHARING, m => m.iter_hash(crate::util::mix(1)),
            |x| { for e in x { e.sh(); } },
            |r| { for e in r.clone() { e.sh(); } let _ = format!("{:?}", r); });
        p!("hash_table::IterHashMut", HANDOVER, m => m.iter_hash_mut(crate::util::mix(1)),
            |x| { for e in x { e.ex(); } },
            |r| { let _ = format!("{:?}", r); });
        p!("hash_table::IntoIter", HANDOVER, m => m.into_iter(),
            |x| { for mut e in x { e.ex(); } },
            |r| { let _ = format!("{:?}", r); let _ = r.len(); });
        p!("hash_table::Drain", HANDOVER, m => m.drain(),
            |mut x| { if let Some(mut e) = x.next() { e.ex(); } drop(x); },
            |r| { let _ = format!("{:?}", r); let _ = r.len(); });
        p!("hash_table::ExtractIf", HANDOVER, m => m.extract_if((|e| { e.ex(); e.0 % 2 == 0 }) as fn(&mut K) -> bool),
            |x| { for mut e in x { e.ex(); } },
            |r| { let _ = r.size_hint(); });
        p!("hash_table::Entry", HANDOVER, m => m.entry(crate::util::mix(1), |e| e.0 == 1, th::<$MK>),
            |x| { match x { Entry::Occupied(mut o) => { o.get_mut().ex(); let (mut e, _) = o.remove(); e.ex(); } Entry::Vacant(v) => { v.insert(K::new(1)); } } },
            |r| { let _ = format!("{:?}", r); });
        p!("hash_table::OccupiedEntry", HANDOVER, m => match m.find_entry(crate::util::mix(1), |e| e.0 == 1) { Ok(o) => o, Err(_) => unreachable!() },
            |mut x| { x.get_mut().ex(); let (mut e, v) = x.remove(); e.ex(); v.insert(K::new(1)).get_mut().ex(); },
            |r| { let _ = format!("{:?}", r); r.get().sh(); });
        p!("hash_table::VacantEntry", HANDOVER, m => match m.entry(crate::util::mix(7000), |e| e.0 == 7000, th::<$MK>) { Entry::Vacant(v) => v, Entry::Occupied(_) => unreachable!() },
            |x| { x.insert(K::new(7000)).get_mut().ex(); },
            |r| { let _ = format!("{:?}", r); });
        p!("hash_table::AbsentEntry", HANDOVER, m => match m.find_entry(crate::util::mix(7000), |e| e.0 == 7000) { Err(a) => a, Ok(_) => unreachable!() },
            |x| { for e in x.into_table().iter_mut() { e.ex(); } },
            |r| { let _ = format!("{:?}", r); });
    }};
}


// ---------------------------------------------------------------------------------------------------
// third clause, one slice of it: mutable access needs a mutable borrow of the collection.
//
// `(&collection).method(..)`: method resolution tries the receiver type `&Collection` by value first. A hashbrown
// method that takes `&mut self` does not match there, so the blanket fallbacks below are selected and return
// `NoAccess`. If the method accepts `&self` (which still compiles for the methods built on the raw iterators), the
// inherent method wins, and the harness now holds mutable element access obtained through a shared reference while
// other shared references to the same elements are alive — observed as equal addresses.

mod recv {
    use allocator_api2::alloc::Allocator;
    pub struct NoAccess;
    pub trait Harvest {
        /// addresses of the elements this object gives mutable access to
        fn addrs(self) -> Vec<usize>;
    }
    impl Harvest for NoAccess {
        fn addrs(self) -> Vec<usize> {
            Vec::new()
        }
    }
    impl<'a, K, V> Harvest for hashbrown::hash_map::IterMut<'a, K, V> {
        fn addrs(self) -> Vec<usize> {
            self.map(|(_, v)| v as *mut V as usize).collect()
        }
    }
    impl<'a, K, V> Harvest for hashbrown::hash_map::ValuesMut<'a, K, V> {
        fn addrs(self) -> Vec<usize> {
            self.map(|v| v as *mut V as usize).collect()
        }
    }
    impl<'a, V> Harvest for Option<&'a mut V> {
        fn addrs(self) -> Vec<usize> {
            self.map(|v| v as *mut V as usize).into_iter().collect()
        }
    }
    impl<'a, K, V> Harvest for Option<(&'a K, &'a mut V)> {
        fn addrs(self) -> Vec<usize> {
            self.map(|(_, v)| v as *mut V as usize).into_iter().collect()
        }
    }
    impl<'a, V> Harvest for [Option<&'a mut V>; 1] {
        fn addrs(self) -> Vec<usize> {
            self.into_iter().flatten().map(|v| v as *mut V as usize).collect()
        }
    }
    impl<'a, T> Harvest for hashbrown::hash_table::IterMut<'a, T> {
        fn addrs(self) -> Vec<usize> {
            self.map(|v| v as *mut T as usize).collect()
        }
    }
    impl<'a, T> Harvest for hashbrown::hash_table::IterHashMut<'a, T> {
        fn addrs(self) -> Vec<usize> {
            self.map(|v| v as *mut T as usize).collect()
        }
    }

    pub trait SharedReceiverMap<K, V> {
        fn iter_mut(self) -> NoAccess;
        fn values_mut(self) -> NoAccess;
        fn get_mut<Q: ?Sized>(self, k: &Q) -> NoAccess;
        fn get_key_value_mut<Q: ?Sized>(self, k: &Q) -> NoAccess;
        fn get_many_mut<Q: ?Sized, const N: usize>(self, ks: [&Q; N]) -> NoAccess;
        fn retain<F: FnMut(&K, &mut V) -> bool>(self, f: F);
    }
    impl<'a, K, V, S, A: Allocator> SharedReceiverMap<K, V> for &'a hashbrown::HashMap<K, V, S, A> {
        fn iter_mut(self) -> NoAccess {
            NoAccess
        }
        fn values_mut(self) -> NoAccess {
            NoAccess
        }
        fn get_mut<Q: ?Sized>(self, _k: &Q) -> NoAccess {
            NoAccess
        }
        fn get_key_value_mut<Q: ?Sized>(self, _k: &Q) -> NoAccess {
            NoAccess
        }
        fn get_many_mut<Q: ?Sized, const N: usize>(self, _ks: [&Q; N]) -> NoAccess {
            NoAccess
        }
        fn retain<F: FnMut(&K, &mut V) -> bool>(self, _f: F) {}
    }
    pub trait SharedReceiverTable<T> {
        fn iter_mut(self) -> NoAccess;
        fn iter_hash_mut(self, hash: u64) -> NoAccess;
        fn find_mut<F: FnMut(&T) -> bool>(self, hash: u64, eq: F) -> NoAccess;
        fn retain<F: FnMut(&mut T) -> bool>(self, f: F);
    }
    impl<'a, T, A: Allocator> SharedReceiverTable<T> for &'a hashbrown::HashTable<T, A> {
        fn iter_mut(self) -> NoAccess {
            NoAccess
        }
        fn iter_hash_mut(self, _hash: u64) -> NoAccess {
            NoAccess
        }
        fn find_mut<F: FnMut(&T) -> bool>(self, _hash: u64, _eq: F) -> NoAccess {
            NoAccess
        }
        fn retain<F: FnMut(&mut T) -> bool>(self, _f: F) {}
    }

}

/// A type that hands out mutable access to elements must not be duplicable: `CloneProbe(&x).dup()` resolves to the
/// inherent method (and really clones) exactly when `X: Clone`; the twin then reaches the same elements mutably.
pub struct CloneProbe<'x, X>(pub &'x X);
impl<'x, X: Clone> CloneProbe<'x, X> {
    pub fn dup(&self) -> Option<X> {
        Some(self.0.clone())
    }
}
pub trait NoClone<X> {
    fn dup(&self) -> Option<X>;
}
impl<'x, X> NoClone<X> for CloneProbe<'x, X> {
    fn dup(&self) -> Option<X> {
        None
    }
}

fn judge_twins(c: &mut Ctx, what: &str, a: Vec<usize>, b: Option<Vec<usize>>) {
    c.evaluations += 1;
    c.sig_parts(&[crate::ctx::prop_salt(what), 7, b.is_some() as u64]);
    c.bump("duplication_offers");
    if let Some(b) = b {
        if let Some(x) = a.iter().find(|x| b.contains(x)) {
            crate::viol!("{} could be cloned, and the original and its clone both hand out mutable access to the element at {:#x} ({} element(s) reachable twice)", what, x, a.iter().filter(|x| b.contains(x)).count());
        }
    }
}

fn judge(c: &mut Ctx, what: &str, got: Vec<usize>, shared_alive: &[usize]) {
    c.evaluations += 1;
    c.sig_parts(&[crate::ctx::prop_salt(what), got.is_empty() as u64]);
    c.bump("shared_receiver_offers");
    if let Some(a) = got.iter().find(|a| shared_alive.contains(a)) {
        crate::viol!(
            "{} called through a shared reference to the collection handed out mutable access to the element at {:#x} while a shared reference to the same element is alive ({} element(s) reachable this way)",
            what, a, got.len()
        );
    }
}

fn clone_probe(c: &mut Ctx, n: u32) {
    use recv::Harvest;
    {
        let mut m = mk_map::<MOk, MOk, MOk, MOk>(n);
        {
            let it = m.iter_mut();
            let twin = CloneProbe(&it).dup();
            judge_twins(c, "hash_map::IterMut", it.addrs(), twin.map(|t| t.addrs()));
        }
        {
            let it = m.values_mut();
            let twin = CloneProbe(&it).dup();
            judge_twins(c, "hash_map::ValuesMut", it.addrs(), twin.map(|t| t.addrs()));
        }
        let mut t = mk_table::<MOk, MOk>(n);
        {
            let it = t.iter_mut();
            let twin = CloneProbe(&it).dup();
            judge_twins(c, "hash_table::IterMut", it.addrs(), twin.map(|t| t.addrs()));
        }
        {
            let it = t.iter_hash_mut(crate::util::mix(1));
            let twin = CloneProbe(&it).dup();
            judge_twins(c, "hash_table::IterHashMut", it.addrs(), twin.map(|t| t.addrs()));
        }
    }
}

fn receiver_probe(c: &mut Ctx, n: u32) {
    use recv::{Harvest, SharedReceiverMap, SharedReceiverTable};
    type K = El<MOk>;
    {
        let m = mk_map::<MOk, MOk, MOk, MOk>(n);
        let alive: Vec<&K> = m.values().collect();
        let addrs: Vec<usize> = alive.iter().map(|v| *v as *const K as usize).collect();
        let r = &m;
        let key = K::new(1);
        let h = r.iter_mut();
        judge(c, "HashMap::iter_mut", h.addrs(), &addrs);
        let h = r.values_mut();
        judge(c, "HashMap::values_mut", h.addrs(), &addrs);
        let h = r.get_mut(&key);
        judge(c, "HashMap::get_mut", h.addrs(), &addrs);
        let h = r.get_key_value_mut(&key);
        judge(c, "HashMap::get_key_value_mut", h.addrs(), &addrs);
        let h = r.get_many_mut([&key]);
        judge(c, "HashMap::get_many_mut", h.addrs(), &addrs);
        let mut seen = Vec::new();
        r.retain(|_, v| {
            seen.push(v as *mut K as usize);
            true
        });
        judge(c, "HashMap::retain", seen, &addrs);
        for v in &alive {
            v.sh();
        }
    }
    {
        let t = mk_table::<MOk, MOk>(n);
        let alive: Vec<&K> = t.iter().collect();
        let addrs: Vec<usize> = alive.iter().map(|v| *v as *const K as usize).collect();
        let r = &t;
        let h1 = crate::util::mix(1);
        let h = r.iter_mut();
        judge(c, "HashTable::iter_mut", h.addrs(), &addrs);
        let h = r.iter_hash_mut(h1);
        judge(c, "HashTable::iter_hash_mut", h.addrs(), &addrs);
        let h = r.find_mut(h1, |e: &K| e.0 == 1);
        judge(c, "HashTable::find_mut", h.addrs(), &addrs);
        let mut seen = Vec::new();
        r.retain(|v: &mut K| {
            seen.push(v as *mut K as usize);
            true
        });
        judge(c, "HashTable::retain", seen, &addrs);
        for v in &alive {
            v.sh();
        }
    }
}

pub fn run(c: &mut Ctx) {
    HOME.store(token(), Ordering::SeqCst);
    c.run_scenarios(|c, _idx, rng: &mut Rng| {
        let n = *rng.pick(&[3u32, 8, 20, 40, 100]);
        let mut d = Json::obj();
        d.set("elements_per_collection", Json::i(n as i128));
        c.describe(d);
        let before: Vec<u64> = FOREIGN.iter().map(|a| a.load(Ordering::Relaxed)).collect();
        let mut o = Obs { probes: 0, sent: 0, shared: 0, rows: Vec::new() };
        let (c2, o2) = (&mut *c, &mut o);
        // control: everything Send + Sync
        map_probes!(c2, o2, n, "none", "Ok", MOk, MOk, MOk, MOk);
        set_probes!(c2, o2, n, "none", "Ok", MOk, MOk, MOk);
        table_probes!(c2, o2, n, "none", "Ok", MOk, MOk);
        // one non-Ok kind in one parameter position
        map_probes!(c2, o2, n, "K", "Ns", MNs, MOk, MOk, MOk);
        map_probes!(c2, o2, n, "K", "So", MSo, MOk, MOk, MOk);
        map_probes!(c2, o2, n, "K", "Yo", MYo, MOk, MOk, MOk);
        map_probes!(c2, o2, n, "V", "Ns", MOk, MNs, MOk, MOk);
        map_probes!(c2, o2, n, "V", "So", MOk, MSo, MOk, MOk);
        map_probes!(c2, o2, n, "V", "Yo", MOk, MYo, MOk, MOk);
        map_probes!(c2, o2, n, "S", "Ns", MOk, MOk, MNs, MOk);
        map_probes!(c2, o2, n, "S", "So", MOk, MOk, MSo, MOk);
        map_probes!(c2, o2, n, "S", "Yo", MOk, MOk, MYo, MOk);
        map_probes!(c2, o2, n, "A", "Ns", MOk, MOk, MOk, MNs);
        map_probes!(c2, o2, n, "A", "So", MOk, MOk, MOk, MSo);
        map_probes!(c2, o2, n, "A", "Yo", MOk, MOk, MOk, MYo);
        set_probes!(c2, o2, n, "T", "Ns", MNs, MOk, MOk);
        set_probes!(c2, o2, n, "T", "So", MSo, MOk, MOk);
        set_probes!(c2, o2, n, "T", "Yo", MYo, MOk, MOk);
        set_probes!(c2, o2, n, "S", "Ns", MOk, MNs, MOk);
        set_probes!(c2, o2, n, "S", "So", MOk, MSo, MOk);
        set_probes!(c2, o2, n, "S", "Yo", MOk, MYo, MOk);
        set_probes!(c2, o2, n, "A", "Ns", MOk, MOk, MNs);
        set_probes!(c2, o2, n, "A", "So", MOk, MOk, MSo);
        set_probes!(c2, o2, n, "A", "Yo", MOk, MOk, MYo);
        table_probes!(c2, o2, n, "T", "Ns", MNs, MOk);
        table_probes!(c2, o2, n, "T", "So", MSo, MOk);
        table_probes!(c2, o2, n, "T", "Yo", MYo, MOk);
        table_probes!(c2, o2, n, "A", "Ns", MOk, MNs);
        table_probes!(c2, o2, n, "A", "So", MOk, MSo);
        table_probes!(c2, o2, n, "A", "Yo", MOk, MYo);
        receiver_probe(c, n);
        clone_probe(c, n);
        let after: Vec<u64> = FOREIGN.iter().map(|a| a.load(Ordering::Relaxed)).collect();
        c.add("probes", o.probes);
        c.add("objects_the_compiler_let_cross_by_value", o.sent);
        c.add("objects_the_compiler_let_be_shared", o.shared);
        c.add("foreign_thread_accesses_observed_Ok", after[0] - before[0]);
        c.add("foreign_thread_accesses_observed_Ns", after[1] - before[1]);
        c.add("foreign_thread_accesses_observed_So", after[2] - before[2]);
        c.add("foreign_thread_accesses_observed_Yo", after[3] - before[3]);
        if std::env::var("HBV_C16_MATRIX").is_ok() {
            for r in &o.rows {
                eprintln!("C16-MATRIX {}", r);
            }
        }
    });
}
