//! C18: behaviour is identical for the SIMD and the portable group scanner.
//! (a) transcripts of order-free C01/C06 histories are compared across the two lanes by ./check;
//! (b) every scanner primitive is compared with its byte-by-byte definition.

use crate::ctx::Ctx;
use crate::elem::Elem;
use crate::mapdrv::{pick_plan, MapDrv, W_GENERAL};
use crate::plan::PlanBH;
use crate::tabledrv::{TableDrv, TW_GENERAL};
use crate::util::{Json, Rng};
use crate::{for_elem, for_pair};
use hashbrown::verif::{group_observe, MaskObs, BITMASK_STRIDE, GROUP_WIDTH};

const EMPTY: u8 = 0xFF;
const DELETED: u8 = 0x80;

fn want_mask(bits: &[bool]) -> MaskObs {
    let iter: Vec<usize> = (0..bits.len()).filter(|i| bits[*i]).collect();
    MaskObs {
        lowest_set_bit: iter.first().copied(),
        leading_zeros: bits.iter().rev().take_while(|b| !**b).count(),
        trailing_zeros: bits.iter().take_while(|b| !**b).count(),
        any_bit_set: !iter.is_empty(),
        iter,
    }
}

fn check_mask(what: &str, got: &MaskObs, want: &MaskObs) {
    if got != want {
        crate::viol!("{}: scanner reports {:?}, the byte-by-byte definition gives {:?}", what, got, want);
    }
}

pub fn check_group(c: &mut Ctx, bytes: &[u8], tag: u8) {
    c.evaluations += 1;
    let w = GROUP_WIDTH;
    let o = group_observe(bytes, tag);
    if c.evaluations % 200_003 == 7 {
        c.log(format!("group {:02x?} tag {:#04x}: match_tag {:?} match_empty {:?} match_full {:?}", bytes, tag, o.match_tag.iter, o.match_empty.iter, o.match_full.iter));
    }
    let what = || format!("group {:02x?} tag {:#04x} (width {}, stride {})", bytes, tag, w, BITMASK_STRIDE);
    crate::check!(o.loads_agree, "{}: aligned and unaligned load disagree", what());
    let is = |f: &dyn Fn(u8) -> bool| -> Vec<bool> { bytes.iter().map(|b| f(*b)).collect() };
    check_mask(&format!("{} match_empty", what()), &o.match_empty, &want_mask(&is(&|b| b == EMPTY)));
    check_mask(&format!("{} match_empty_or_deleted", what()), &o.match_empty_or_deleted, &want_mask(&is(&|b| b & 0x80 != 0)));
    check_mask(&format!("{} match_full", what()), &o.match_full, &want_mask(&is(&|b| b & 0x80 == 0)));
    // match_tag: exact on SSE2; the portable scanner may additionally report a byte equal to tag^1 at a position above a true match
    let exact = is(&|b| b == tag);
    let got_set: Vec<bool> = (0..w).map(|i| o.match_tag.iter.contains(&i)).collect();
    let mut ok = true;
    let mut extra = 0;
    for i in 0..w {
        if exact[i] && !got_set[i] {
            ok = false;
        }
        if !exact[i] && got_set[i] {
            let allowed = w == 8 && bytes[i] == tag ^ 1 && (0..i).any(|j| exact[j]);
            if !allowed {
                ok = false;
            }
            extra += 1;
        }
    }
    if !ok {
        crate::viol!("{} match_tag: scanner reports positions {:?}, exact matches are {:?}", what(), o.match_tag.iter, want_mask(&exact).iter);
    } else {
        // the auxiliary queries must agree with the reported bit set, and iteration must be ascending
        let w2 = want_mask(&got_set);
        check_mask(&format!("{} match_tag (queries over the reported set)", what()), &o.match_tag, &w2);
        if extra > 0 {
            c.bump("portable_tag_false_positives_seen");
        }
    }
    // bulk convert for rehash: FULL -> DELETED, EMPTY/DELETED -> EMPTY
    let conv: Vec<u8> = bytes.iter().map(|b| if b & 0x80 == 0 { DELETED } else { EMPTY }).collect();
    crate::check!(o.converted == conv, "{} convert_special_to_empty_and_full_to_deleted gives {:02x?}, expected {:02x?}", what(), o.converted, conv);
}

/// a byte a control slot can hold: a 7-bit tag, EMPTY or DELETED
fn valid_byte(rng: &mut Rng) -> u8 {
    match rng.below(10) {
        0 => EMPTY,
        1 => DELETED,
        _ => rng.below(128) as u8,
    }
}

fn primitives(c: &mut Ctx) {
    let w = GROUP_WIDTH;
    let mut rng = Rng::derive(c.seed, 18, c.shard, 1);
    let (sh, n) = (c.shard as usize, c.nshards as usize);
    c.begin_scenario(c.shard);
    let mut d = Json::obj();
    d.set("what", Json::s("scanner primitives vs byte-by-byte definition"));
    d.set("group_width", Json::i(w));
    c.describe(d);
    let tags: Vec<u8> = if c.thorough() { (0..128u8).chain([EMPTY, DELETED]).collect() } else { vec![0, 1, 2, 0x3f, 0x40, 0x7e, 0x7f, 0x55, 0x2a, 0x10, 0x11, EMPTY, DELETED, rng.below(128) as u8, rng.below(128) as u8, rng.below(128) as u8] };
    let backgrounds: Vec<Option<u8>> = vec![Some(EMPTY), Some(DELETED), Some(0x00), Some(0x7F), None];
    let mut case = 0usize;
    for bg in &backgrounds {
        for pos in 0..w - 1 {
            for tag in &tags {
                // all 2-byte windows at this position: interesting byte values around the tag plus the specials
                // the domain is what a control byte can hold (invariant I1): a 7-bit tag, EMPTY or DELETED.
                // (The portable match_empty documents that it relies on this: it tests the top two bits only.)
                let vals: Vec<u8> = if c.thorough() {
                    (0..128u8).chain([EMPTY, DELETED]).collect()
                } else {
                    let mut v = vec![tag & 0x7f, (tag ^ 1) & 0x7f, tag.wrapping_add(1) & 0x7f, tag.wrapping_sub(1) & 0x7f, 0, 1, 0x7e, 0x7f, 0x40, EMPTY, DELETED];
                    v.sort();
                    v.dedup();
                    v
                };
                for a in &vals {
                    case += 1;
                    if case % n != sh {
                        continue;
                    }
                    for b in &vals {
                        let mut g: Vec<u8> = (0..w).map(|_| bg.unwrap_or_else(|| valid_byte(&mut rng))).collect();
                        g[pos] = *a;
                        g[pos + 1] = *b;
                        check_group(c, &g, *tag);
                    }
                }
                c.sig_parts(&[pos as u64, *tag as u64, bg.map(|x| x as u64).unwrap_or(999)]);
                if crate::util::has_violation() {
                    c.end_scenario();
                    return;
                }
            }
        }
    }
    // random full groups (biased to few distinct values so that repeated matches occur)
    let n_rand = if c.thorough() { 10_000_000 / n } else { 400_000 / n };
    for i in 0..n_rand {
        let palette: [u8; 4] = [rng.next() as u8 & 0x7f, valid_byte(&mut rng), EMPTY, DELETED];
        let g: Vec<u8> = (0..w).map(|_| if rng.chance(1, 3) { valid_byte(&mut rng) } else { palette[rng.usize_below(4)] }).collect();
        let tag = if rng.chance(1, 2) { palette[0] } else { rng.below(128) as u8 };
        check_group(c, &g, tag);
        if i % 4096 == 0 && crate::util::has_violation() {
            break;
        }
    }
    c.sig(0x5ca9);
    c.end_scenario();
}

fn map_transcript<K: Elem, V: Elem>(c: &mut Ctx, rng: &mut Rng) {
    let plan = pick_plan(rng);
    let universe = *rng.pick(&[4u32, 8, 16, 24, 40, 64]);
    let mut d: MapDrv<K, V> = MapDrv::new(PlanBH::new(plan, rng.next()), universe, 0);
    d.order_free = true;
    c.describe(d.describe("C18 order-free transcript"));
    let n_ops = *rng.pick(&[60usize, 150, 300]);
    for _ in 0..n_ops {
        if !d.step(c, rng, &W_GENERAL) {
            break;
        }
    }
    c.digests.push((c.scen_index, d.tr.0 ^ d.contents_digest()));
}

fn table_transcript<E: Elem>(c: &mut Ctx, rng: &mut Rng) {
    let plan = pick_plan(rng);
    let universe = *rng.pick(&[2u32, 4, 8, 16, 24, 40]);
    let mut d: TableDrv<E> = TableDrv::new(PlanBH::new(plan, rng.next()), universe, 0);
    d.order_free = true;
    d.max_live = 400;
    c.describe(d.describe("C18 order-free transcript"));
    let n_ops = *rng.pick(&[60usize, 150, 300]);
    for _ in 0..n_ops {
        if !d.step(c, rng, &TW_GENERAL) {
            break;
        }
    }
    c.digests.push((c.scen_index, d.tr.0 ^ d.contents_digest()));
}

pub fn run(c: &mut Ctx) {
    // part (b) first (bounded), then part (a) for the rest of the budget; when replaying one scenario only part (a) runs
    if c.only.is_none() {
        primitives(c);
        if crate::util::has_violation() {
            return;
        }
    }
    // part (a): the same scenario indices in both lanes: a fixed number per shard so that both lanes cover the same set
    let per_shard: u64 = if c.thorough() { 20_000 } else { 1_500 };
    c.max_scen = c.scenarios + per_shard;
    c.max_ms = u64::MAX / 4;
    c.run_scenarios(|c, idx, rng| match crate::util::mix(idx) % 6 {
        0 => for_pair!("P8xP8", map_transcript(c, rng)),
        1 => for_pair!("T24xT24", map_transcript(c, rng)),
        2 => for_pair!("B3xB1", map_transcript(c, rng)),
        3 => for_pair!("L200xB1", map_transcript(c, rng)),
        4 => for_elem!("P8", table_transcript(c, rng)),
        _ => for_elem!("T24", table_transcript(c, rng)),
    });
}
