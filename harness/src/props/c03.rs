//! C03: every element and every allocation is released exactly once.
//! The deciding monitors are the element registry (M2: double drop, leak,
//! reference to a dead element) and the allocator ledger (M1: double free,
//! layout mismatch, leak), evaluated offline at the end of every scenario by
//! `Ctx::end_scenario`, plus the per-exit checks below.

use crate::ckalloc::{self, CkAlloc};
use crate::ctx::Ctx;
use crate::elem::{self, Elem, A64, B1, L200, P8, T24, Z};
use crate::plan::{KeyRef, PlanBH};
use crate::states::{build, Coll, MapC, SetC, Spec, TableC, RECIPES};
use crate::util::{Json, Rng};

const MAP_EXITS: [&str; 16] = [
    "remove_all", "overwrite", "clear", "retain", "extract_if_cut", "drain_cut", "into_iter_cut", "into_keys_cut", "into_values_cut",
    "shrink", "clone_from_into_occupied", "drop", "remove_entry", "entry_remove", "replace_entry_with", "shrink_to_empty_with_capacity",
];

fn cuts(len: usize, rng: &mut Rng, thorough: bool) -> Vec<usize> {
    if crate::util::slow_lane() {
        let mut v = vec![0, len / 2, len];
        v.dedup();
        return v;
    }
    if len <= 24 || (thorough && len <= 64) {
        (0..=len).collect()
    } else {
        let mut v = vec![0, 1, len / 2, len - 1, len];
        for _ in 0..4 {
            v.push(rng.usize_below(len + 1));
        }
        v.sort();
        v.dedup();
        v
    }
}

/// After an exit: everything handed to the caller is dropped by the caller, the collection is dropped,
/// and nothing may remain live (elements or blocks).
fn settle(c: &mut Ctx, what: &str) {
    let live = elem::live_now();
    let blocks = ckalloc::counters().live_blocks;
    if live != 0 {
        crate::viol!("{}: {} element(s) neither dropped nor returned to the caller (leak); serials +{:?}", what, live, elem::reg_live_serials(6));
    }
    if blocks != 0 {
        crate::viol!("{}: {} block(s) remain allocated after the collection was dropped: {:?}", what, blocks, ckalloc::live_blocks().iter().take(3).collect::<Vec<_>>());
    }
    c.evaluations += 1;
}

fn map_exits<K: Elem, V: Elem>(c: &mut Ctx, spec: &Spec, rng: &mut Rng) {
    let probe: MapC<K, V> = build(spec);
    let f = probe.validate("C03 state");
    let ids: Vec<u32> = probe.contents().iter().map(|e| e.0).collect();
    let len = ids.len();
    drop(probe);
    let bh = PlanBH::new(spec.plan, spec.salt);
    let only_exit = if crate::util::slow_lane() { Some(rng.usize_below(MAP_EXITS.len())) } else { None };
    for (xi, exit) in MAP_EXITS.iter().enumerate() {
        if only_exit.map_or(false, |o| o != xi) {
            continue;
        }
        let cut_list = if exit.ends_with("_cut") { cuts(len, rng, c.thorough()) } else { vec![0] };
        for cut in cut_list {
            let what = format!("HashMap<{},{}> [{}] exit {} cut {}", K::NAME, V::NAME, spec.describe(), exit, cut);
            c.sig_parts(&[xi as u64, f.class as u64, (f.deleted > 0) as u64, (cut == 0) as u64 + 2 * (cut == len) as u64, crate::ctx::prop_salt(K::NAME), crate::ctx::prop_salt(V::NAME)]);
            let mut m: MapC<K, V> = build(spec);
            if f.class != 0 {
                crate::check!(m.alloc_size() == ckalloc::counters().live_bytes, "{}: allocation_size() {} != bytes held {}", what, m.alloc_size(), ckalloc::counters().live_bytes);
            }
            match *exit {
                "remove_all" => {
                    for id in &ids {
                        let v = m.0.remove(&KeyRef(*id));
                        match v {
                            Some(v) => {
                                v.check(); // a value returned to the caller must still be live
                            }
                            None => crate::viol!("{}: remove({}) returned None", what, id),
                        }
                    }
                }
                "remove_entry" => {
                    for id in &ids {
                        if let Some((k, v)) = m.0.remove_entry(&KeyRef(*id)) {
                            k.check();
                            v.check();
                        }
                    }
                }
                "entry_remove" => {
                    for id in &ids {
                        if let hashbrown::hash_map::Entry::Occupied(o) = m.0.entry(K::make(*id, 3)) {
                            let (k, v) = o.remove_entry();
                            k.check();
                            v.check();
                        }
                    }
                }
                "replace_entry_with" => {
                    for (j, id) in ids.iter().enumerate() {
                        if let hashbrown::hash_map::Entry::Occupied(o) = m.0.entry(K::make(*id, 3)) {
                            let _ = o.replace_entry_with(|k, v| {
                                k.check();
                                v.check();
                                if j % 2 == 0 {
                                    Some(V::make(5 % V::ID_SPACE, 5))
                                } else {
                                    None
                                }
                            });
                        }
                    }
                }
                "overwrite" => {
                    for id in &ids {
                        let old = m.0.insert(K::make(*id, 4), V::make(4 % V::ID_SPACE, 4));
                        match old {
                            Some(o) => {
                                o.check();
                            }
                            None => crate::viol!("{}: insert over key {} returned None", what, id),
                        }
                    }
                }
                "clear" => m.0.clear(),
                "retain" => m.0.retain(|k, _| k.id() % 2 == 0),
                "extract_if_cut" => {
                    let mut it = m.0.extract_if(|k, _| k.id() % 3 != 0);
                    for _ in 0..cut {
                        match it.next() {
                            Some((k, v)) => {
                                k.check();
                                v.check();
                            }
                            None => break,
                        }
                    }
                }
                "drain_cut" => {
                    let mut d = m.0.drain();
                    for _ in 0..cut {
                        if let Some((k, v)) = d.next() {
                            k.check();
                            v.check();
                        }
                    }
                }
                "into_iter_cut" => {
                    let mut it = m.0.into_iter();
                    let mut held = Vec::new();
                    for _ in 0..cut {
                        if let Some(kv) = it.next() {
                            kv.0.check();
                            kv.1.check();
                            held.push(kv);
                        }
                    }
                    drop(it);
                    // values moved out to the caller are still live after the iterator (and its block) are gone
                    for (k, v) in &held {
                        k.check();
                        v.check();
                    }
                    drop(held);
                    settle(c, &what);
                    continue;
                }
                "into_keys_cut" => {
                    let mut it = m.0.into_keys();
                    let mut held = Vec::new();
                    for _ in 0..cut {
                        if let Some(k) = it.next() {
                            k.check();
                            held.push(k);
                        }
                    }
                    drop(it);
                    for k in &held {
                        k.check();
                    }
                    drop(held);
                    settle(c, &what);
                    continue;
                }
                "into_values_cut" => {
                    let mut it = m.0.into_values();
                    let mut held = Vec::new();
                    for _ in 0..cut {
                        if let Some(v) = it.next() {
                            v.check();
                            held.push(v);
                        }
                    }
                    drop(it);
                    for v in &held {
                        v.check();
                    }
                    drop(held);
                    settle(c, &what);
                    continue;
                }
                "shrink" => {
                    m.0.shrink_to_fit();
                    m.0.shrink_to(len / 2);
                    for id in ids.iter().take(len / 2) {
                        m.0.remove(&KeyRef(*id));
                    }
                    m.0.shrink_to_fit();
                }
                "shrink_to_empty_with_capacity" => {
                    // an element-less table that still owns a block, shrunk to a smaller non-zero capacity
                    m.0.clear();
                    let n = 1 + rng.usize_below(6);
                    m.0.shrink_to(n);
                    crate::check!(ckalloc::counters().live_blocks <= 1, "{}: after clear + shrink_to({}) the collection holds {} blocks", what, n, ckalloc::counters().live_blocks);
                    crate::check!(m.alloc_size() == ckalloc::counters().live_bytes, "{}: allocation_size() {} != bytes held {}", what, m.alloc_size(), ckalloc::counters().live_bytes);
                }
                "clone_from_into_occupied" => {
                    let r = RECIPES[rng.usize_below(RECIPES.len())];
                    let tspec = Spec::random(rng, r);
                    crate::ckalloc::set_current_id(5);
                    let mut t: MapC<K, V> = build(&tspec);
                    crate::ckalloc::set_current_id(0);
                    t.0.clone_from(&m.0);
                    t.validate(&what);
                    drop(t);
                }
                _ => {}
            }
            if *exit != "drop" {
                m.validate(&what);
                crate::check!(m.len() == m.contents().len(), "{}: len() {} != elements yielded", what, m.len());
                if !m.0.is_empty() || m.capacity() > 0 {
                    crate::check!(m.alloc_size() == ckalloc::counters().live_bytes, "{}: after the exit allocation_size() {} != bytes held {}", what, m.alloc_size(), ckalloc::counters().live_bytes);
                }
            }
            drop(m);
            settle(c, &what);
        }
    }
    let _ = bh;
    // last, because it may legitimately leak: a Drain that is mem::forget-ten after `cut` elements. What the forgotten
    // drain still owned may never be dropped, but nothing may be dropped twice: the elements already handed to the caller
    // are the caller's alone, also after the collection has been used again, cleared and dropped.
    if !crate::util::slow_lane() || rng.chance(1, 4) {
        let cut = rng.usize_below(len + 1);
        let what = format!("HashMap<{},{}> [{}] exit drain_forget cut {}", K::NAME, V::NAME, spec.describe(), cut);
        c.sig_parts(&[90, f.class as u64, (cut == 0) as u64 + 2 * (cut == len) as u64, crate::ctx::prop_salt(K::NAME)]);
        c.leak_ok = true;
        let mut m: MapC<K, V> = build(spec);
        let mut d = m.0.drain();
        let mut held = Vec::new();
        for _ in 0..cut {
            if let Some(kv) = d.next() {
                held.push(kv);
            }
        }
        std::mem::forget(d);
        m.0.insert(K::make(77 % K::ID_SPACE, 9), V::make(9 % V::ID_SPACE, 9));
        let _ = m.0.get(&KeyRef(77 % K::ID_SPACE));
        m.0.clear();
        drop(m);
        for (k, v) in &held {
            k.check();
            v.check();
        }
        drop(held);
        c.evaluations += 1;
        c.bump("forgotten_drains");
    }
}

fn set_exits<T: Elem>(c: &mut Ctx, spec: &Spec, rng: &mut Rng) {
    let probe: SetC<T> = build(spec);
    let f = probe.validate("C03 state");
    let ids: Vec<u32> = probe.contents().iter().map(|e| e.0).collect();
    let len = ids.len();
    drop(probe);
    for (xi, exit) in ["take_all", "replace", "retain", "extract_if_cut", "drain_cut", "into_iter_cut", "clone_from", "drop", "entry_remove"].iter().enumerate() {
        let cut_list = if exit.ends_with("_cut") { cuts(len, rng, c.thorough()) } else { vec![0] };
        for cut in cut_list {
            let what = format!("HashSet<{}> [{}] exit {} cut {}", T::NAME, spec.describe(), exit, cut);
            c.sig_parts(&[100 + xi as u64, f.class as u64, (f.deleted > 0) as u64, (cut == 0) as u64 + 2 * (cut == len) as u64, crate::ctx::prop_salt(T::NAME)]);
            let mut s: SetC<T> = build(spec);
            match *exit {
                "take_all" => {
                    for id in &ids {
                        match s.0.take(&KeyRef(*id)) {
                            Some(v) => {
                                v.check();
                            }
                            None => crate::viol!("{}: take({}) returned None", what, id),
                        }
                    }
                }
                "replace" => {
                    for id in &ids {
                        match s.0.replace(T::make(*id, 6)) {
                            Some(old) => {
                                old.check();
                            }
                            None => crate::viol!("{}: replace({}) returned None", what, id),
                        }
                    }
                }
                "retain" => s.0.retain(|k| k.id() % 2 == 0),
                "extract_if_cut" => {
                    let mut it = s.0.extract_if(|k| k.id() % 3 != 0);
                    for _ in 0..cut {
                        match it.next() {
                            Some(k) => {
                                k.check();
                            }
                            None => break,
                        }
                    }
                }
                "drain_cut" => {
                    let mut d = s.0.drain();
                    for _ in 0..cut {
                        if let Some(k) = d.next() {
                            k.check();
                        }
                    }
                }
                "into_iter_cut" => {
                    let mut it = s.0.into_iter();
                    let mut held = Vec::new();
                    for _ in 0..cut {
                        if let Some(k) = it.next() {
                            held.push(k);
                        }
                    }
                    drop(it);
                    for k in &held {
                        k.check();
                    }
                    drop(held);
                    settle(c, &what);
                    continue;
                }
                "clone_from" => {
                    let r = RECIPES[rng.usize_below(RECIPES.len())];
                    let tspec = Spec::random(rng, r);
                    crate::ckalloc::set_current_id(6);
                    let mut t: SetC<T> = build(&tspec);
                    crate::ckalloc::set_current_id(0);
                    t.0.clone_from(&s.0);
                    drop(t);
                }
                "entry_remove" => {
                    for id in &ids {
                        if let hashbrown::hash_set::Entry::Occupied(o) = s.0.entry(T::make(*id, 3)) {
                            o.remove().check();
                        }
                    }
                }
                _ => {}
            }
            drop(s);
            settle(c, &what);
        }
    }
    // a forgotten Drain (see map_exits): leaks are permitted, double drops are not
    {
        let cut = rng.usize_below(len + 1);
        let what = format!("HashSet<{}> [{}] exit drain_forget cut {}", T::NAME, spec.describe(), cut);
        c.sig_parts(&[190, f.class as u64, (cut == 0) as u64 + 2 * (cut == len) as u64]);
        c.leak_ok = true;
        let mut s: SetC<T> = build(spec);
        let mut d = s.0.drain();
        let mut held = Vec::new();
        for _ in 0..cut {
            if let Some(x) = d.next() {
                held.push(x);
            }
        }
        std::mem::forget(d);
        s.0.insert(T::make(77 % T::ID_SPACE, 9));
        let _ = s.0.contains(&KeyRef(77 % T::ID_SPACE));
        s.0.clear();
        drop(s);
        for x in &held {
            x.check();
        }
        drop(held);
        let _ = &what;
        c.evaluations += 1;
        c.bump("forgotten_drains");
    }
}

fn table_exits<E: Elem>(c: &mut Ctx, spec: &Spec, rng: &mut Rng) {
    let probe: TableC<E> = build(spec);
    let f = probe.validate("C03 state");
    let ids: Vec<u32> = probe.contents().iter().map(|e| e.0).collect();
    let len = ids.len();
    drop(probe);
    for (xi, exit) in ["entry_remove_all", "retain", "extract_if_cut", "drain_cut", "into_iter_cut", "clone", "drop", "remove_reinsert"].iter().enumerate() {
        let cut_list = if exit.ends_with("_cut") { cuts(len, rng, c.thorough()) } else { vec![0] };
        for cut in cut_list {
            let what = format!("HashTable<{}> [{}] exit {} cut {}", E::NAME, spec.describe(), exit, cut);
            c.sig_parts(&[200 + xi as u64, f.class as u64, (f.deleted > 0) as u64, (cut == 0) as u64 + 2 * (cut == len) as u64, crate::ctx::prop_salt(E::NAME)]);
            let mut t: TableC<E> = build(spec);
            let bh = t.1;
            match *exit {
                "entry_remove_all" => {
                    for id in &ids {
                        let h = bh.hash_of(*id);
                        if let Ok(o) = t.0.find_entry(h, |e| e.id() == *id) {
                            let (v, _) = o.remove();
                            v.check();
                        }
                    }
                }
                "remove_reinsert" => {
                    for id in &ids {
                        let h = bh.hash_of(*id);
                        if let Ok(o) = t.0.find_entry(h, |e| e.id() == *id) {
                            let (v, vac) = o.remove();
                            v.check();
                            vac.insert(E::make(*id, 8));
                        }
                    }
                }
                "retain" => t.0.retain(|k| k.id() % 2 == 0),
                "extract_if_cut" => {
                    let mut it = t.0.extract_if(|k| k.id() % 3 != 0);
                    for _ in 0..cut {
                        match it.next() {
                            Some(k) => {
                                k.check();
                            }
                            None => break,
                        }
                    }
                }
                "drain_cut" => {
                    let mut d = t.0.drain();
                    for _ in 0..cut {
                        if let Some(k) = d.next() {
                            k.check();
                        }
                    }
                }
                "into_iter_cut" => {
                    let mut it = t.0.into_iter();
                    let mut held = Vec::new();
                    for _ in 0..cut {
                        if let Some(k) = it.next() {
                            held.push(k);
                        }
                    }
                    drop(it);
                    for k in &held {
                        k.check();
                    }
                    drop(held);
                    settle(c, &what);
                    continue;
                }
                "clone" => {
                    let t2 = t.0.clone();
                    drop(t2);
                }
                _ => {}
            }
            drop(t);
            settle(c, &what);
        }
    }
    // a forgotten Drain (see map_exits): leaks are permitted, double drops are not
    {
        let cut = rng.usize_below(len + 1);
        c.sig_parts(&[290, f.class as u64, (cut == 0) as u64 + 2 * (cut == len) as u64]);
        c.leak_ok = true;
        let mut t: TableC<E> = build(spec);
        let mut d = t.0.drain();
        let mut held = Vec::new();
        for _ in 0..cut {
            if let Some(x) = d.next() {
                held.push(x);
            }
        }
        std::mem::forget(d);
        t.put(77 % E::ID_SPACE, 9);
        let _ = t.has(77 % E::ID_SPACE);
        t.0.clear();
        drop(t);
        for x in &held {
            x.check();
        }
        drop(held);
        c.evaluations += 1;
        c.bump("forgotten_drains");
    }
}

/// Zero-sized elements with a counted destructor, including many duplicates in a HashTable.
fn zst_exits<ZT: Elem>(c: &mut Ctx, rng: &mut Rng) {
    let n = *rng.pick(&[1usize, 3, 8, 17, 40]);
    let h = rng.next();
    for exit in 0..5u64 {
        let what = format!("HashTable<{}> n={} exit {}", ZT::NAME, n, exit);
        c.sig_parts(&[300 + exit, (n > 16) as u64]);
        let mut t: hashbrown::HashTable<ZT, CkAlloc> = hashbrown::HashTable::new_in(CkAlloc);
        for _ in 0..n {
            t.insert_unique(h, ZT::make(0, 0), |_| h);
        }
        match exit {
            0 => t.clear(),
            1 => {
                let mut d = t.drain();
                for _ in 0..n / 2 {
                    d.next();
                }
            }
            2 => {
                let mut k = 0;
                t.retain(|_| {
                    k += 1;
                    k % 2 == 0
                });
            }
            3 => {
                let mut it = t.into_iter();
                for _ in 0..n / 3 {
                    it.next();
                }
                drop(it);
                settle(c, &what);
                continue;
            }
            _ => {}
        }
        drop(t);
        settle(c, &what);
    }
    // HashMap<T24, Z> and HashMap<Z, T24>
    let mut m: hashbrown::HashMap<Z, T24, PlanBH, CkAlloc> = hashbrown::HashMap::with_hasher_in(PlanBH::new(crate::plan::Plan::Mixed, 1), CkAlloc);
    m.insert(Z::make(0, 0), T24::make(1, 1));
    let old = m.insert(Z::make(0, 0), T24::make(2, 2));
    if let Some(o) = old {
        o.check();
    }
    drop(m);
    settle(c, "HashMap<Z,T24> overwrite + drop");
}

/// A collection that was never given an element or a capacity owns no block at all.
fn never_allocates(c: &mut Ctx, rng: &mut Rng) {
    let spec = Spec::exact(rng, crate::states::Recipe::Fresh);
    let a0 = ckalloc::counters();
    let mut m: MapC<T24, T24> = build(&spec);
    let _ = m.0.get(&KeyRef(1));
    let _ = m.0.remove(&KeyRef(1));
    m.0.clear();
    m.0.shrink_to_fit();
    m.0.retain(|_, _| true);
    let _ = m.0.drain().count();
    let _ = m.0.iter().count();
    let c2 = m.0.clone();
    let mut t: MapC<T24, T24> = build(&spec);
    t.0.clone_from(&m.0);
    drop(c2);
    drop(t);
    let it = m.0.into_iter();
    drop(it);
    let a1 = ckalloc::counters();
    crate::check!(a1.allocs == a0.allocs, "a HashMap that was never given an element or a capacity allocated {} block(s)", a1.allocs - a0.allocs);
    c.sig(0x1e7e);
    settle(c, "never allocated map");
}

pub fn run(c: &mut Ctx) {
    // this property rebuilds every state many times: very large sparse states are capped at 2^20 buckets
    crate::states::set_huge_max_lg(20);
    c.run_scenarios(|c, idx, rng| {
        let recipe = RECIPES[((crate::util::mix(idx) / 11) % RECIPES.len() as u64) as usize];
        let spec = Spec::random(rng, recipe);
        let mut d = Json::obj();
        d.set("state", Json::s(spec.describe()));
        d.set("case", Json::i(crate::util::mix(idx) % 11));
        c.describe(d);
        match crate::util::mix(idx) % 11 {
            0 => map_exits::<T24, T24>(c, &spec, rng),
            1 => map_exits::<P8, T24>(c, &spec, rng),
            2 if rng.chance(1, 3) => map_exits::<crate::elem::L600, B1>(c, &spec, rng),
            2 => map_exits::<L200, B1>(c, &spec, rng),
            3 => map_exits::<A64, T24>(c, &spec, rng),
            4 => map_exits::<P8, P8>(c, &spec, rng),
            5 => map_exits::<T24, Z>(c, &spec, rng),
            6 => set_exits::<T24>(c, &spec, rng),
            7 if rng.chance(1, 3) => set_exits::<crate::elem::L4K>(c, &spec, rng),
            7 => set_exits::<L200>(c, &spec, rng),
            8 if rng.chance(1, 4) => table_exits::<crate::elem::L600>(c, &spec, rng),
            8 => table_exits::<T24>(c, &spec, rng),
            9 => table_exits::<A64>(c, &spec, rng),
            _ => {
                zst_exits::<Z>(c, rng);
                zst_exits::<crate::elem::Z8>(c, rng);
                never_allocates(c, rng);
            }
        }
    });
}
