//! C10: retain, extract_if and drain remove exactly the selected elements.

use crate::ckalloc;
use crate::ctx::Ctx;
use crate::elem::{Elem, B1, P8, T24, Z, Z8};
use crate::states::{build, Coll, MapC, SetC, Spec, TableC, RECIPES};
use crate::util::{Json, Rng};

/// the 'true' set: for small collections every subset is reachable through `mask`, otherwise a random subset
fn selected(mask: u64, salt: u64, rank: usize, len: usize, id: u32, gen: u16) -> bool {
    if len <= 10 {
        (mask >> rank) & 1 == 1
    } else {
        crate::util::splitmix64(salt ^ id as u64 ^ ((gen as u64) << 40)) & 1 == 1
    }
}

fn rank_of(expect: &[(u32, u16)], id: u32, gen: u16) -> usize {
    expect.iter().position(|e| *e == (id, gen)).unwrap_or(63)
}

fn sorted(mut v: Vec<(u32, u16)>) -> Vec<(u32, u16)> {
    v.sort();
    v
}

trait Ops: Coll {
    /// retain with a predicate on (id, gen); the predicate may also rewrite the payload (maps only). Returns the arguments it was called with.
    fn retain_by(&mut self, f: &mut dyn FnMut(u32, u16) -> bool) -> Vec<(u32, u16)>;
    /// extract_if, stopping after `limit` yielded elements. Returns (yielded, arguments for which the predicate returned true, all arguments).
    fn extract_by(&mut self, f: &mut dyn FnMut(u32, u16) -> bool, limit: usize) -> (Vec<(u32, u16)>, Vec<(u32, u16)>, Vec<(u32, u16)>);
    fn drain_ids(&mut self, take: usize) -> Vec<(u32, u16)>;
    /// for maps: a key whose value does not show the edit retain's predicate made through `&mut V`
    fn edit_lost(&self) -> Option<u32>;
}

impl<K: Elem, V: Elem> Ops for MapC<K, V> {
    fn retain_by(&mut self, f: &mut dyn FnMut(u32, u16) -> bool) -> Vec<(u32, u16)> {
        let mut args = Vec::new();
        self.0.retain(|k, v| {
            k.check();
            v.check();
            args.push((k.id(), k.gen()));
            let keep = f(k.id(), k.gen());
            if keep {
                // mutation through the &mut argument must persist
                *v = V::make((k.id() ^ 0x55) % V::ID_SPACE, 77);
            }
            keep
        });
        args
    }
    fn extract_by(&mut self, f: &mut dyn FnMut(u32, u16) -> bool, limit: usize) -> (Vec<(u32, u16)>, Vec<(u32, u16)>, Vec<(u32, u16)>) {
        let mut trues = Vec::new();
        let mut all = Vec::new();
        let mut out = Vec::new();
        {
            let mut it = self.0.extract_if(|k, v| {
                k.check();
                v.check();
                all.push((k.id(), k.gen()));
                let t = f(k.id(), k.gen());
                if t {
                    trues.push((k.id(), k.gen()));
                } else {
                    *v = V::make((k.id() ^ 0x33) % V::ID_SPACE, 78);
                }
                t
            });
            while out.len() < limit {
                match it.next() {
                    Some((k, v)) => {
                        k.check();
                        v.check();
                        out.push((k.id(), k.gen()));
                    }
                    None => break,
                }
            }
        }
        (out, trues, all)
    }
    fn drain_ids(&mut self, take: usize) -> Vec<(u32, u16)> {
        let mut out = Vec::new();
        let mut d = self.0.drain();
        for _ in 0..take {
            if let Some((k, v)) = d.next() {
                k.check();
                v.check();
                out.push((k.id(), k.gen()));
            }
        }
        out
    }
    fn edit_lost(&self) -> Option<u32> {
        self.0.iter().find(|(k, v)| v.id() != (k.id() ^ 0x55) % V::ID_SPACE || (V::HAS_GEN && v.gen() != 77)).map(|(k, _)| k.id())
    }
}

impl<T: Elem> Ops for SetC<T> {
    fn retain_by(&mut self, f: &mut dyn FnMut(u32, u16) -> bool) -> Vec<(u32, u16)> {
        let mut args = Vec::new();
        self.0.retain(|k| {
            k.check();
            args.push((k.id(), k.gen()));
            f(k.id(), k.gen())
        });
        args
    }
    fn extract_by(&mut self, f: &mut dyn FnMut(u32, u16) -> bool, limit: usize) -> (Vec<(u32, u16)>, Vec<(u32, u16)>, Vec<(u32, u16)>) {
        let mut trues = Vec::new();
        let mut all = Vec::new();
        let mut out = Vec::new();
        {
            let mut it = self.0.extract_if(|k| {
                k.check();
                all.push((k.id(), k.gen()));
                let t = f(k.id(), k.gen());
                if t {
                    trues.push((k.id(), k.gen()));
                }
                t
            });
            while out.len() < limit {
                match it.next() {
                    Some(k) => {
                        k.check();
                        out.push((k.id(), k.gen()));
                    }
                    None => break,
                }
            }
        }
        (out, trues, all)
    }
    fn drain_ids(&mut self, take: usize) -> Vec<(u32, u16)> {
        let mut out = Vec::new();
        let mut d = self.0.drain();
        for _ in 0..take {
            if let Some(k) = d.next() {
                k.check();
                out.push((k.id(), k.gen()));
            }
        }
        out
    }
    fn edit_lost(&self) -> Option<u32> {
        None
    }
}

impl<E: Elem> Ops for TableC<E> {
    fn retain_by(&mut self, f: &mut dyn FnMut(u32, u16) -> bool) -> Vec<(u32, u16)> {
        let mut args = Vec::new();
        self.0.retain(|k| {
            k.check();
            args.push((k.id(), k.gen()));
            f(k.id(), k.gen())
        });
        args
    }
    fn extract_by(&mut self, f: &mut dyn FnMut(u32, u16) -> bool, limit: usize) -> (Vec<(u32, u16)>, Vec<(u32, u16)>, Vec<(u32, u16)>) {
        let mut trues = Vec::new();
        let mut all = Vec::new();
        let mut out = Vec::new();
        {
            let mut it = self.0.extract_if(|k| {
                k.check();
                all.push((k.id(), k.gen()));
                let t = f(k.id(), k.gen());
                if t {
                    trues.push((k.id(), k.gen()));
                }
                t
            });
            while out.len() < limit {
                match it.next() {
                    Some(k) => {
                        k.check();
                        out.push((k.id(), k.gen()));
                    }
                    None => break,
                }
            }
        }
        (out, trues, all)
    }
    fn drain_ids(&mut self, take: usize) -> Vec<(u32, u16)> {
        let mut out = Vec::new();
        let mut d = self.0.drain();
        for _ in 0..take {
            if let Some(k) = d.next() {
                k.check();
                out.push((k.id(), k.gen()));
            }
        }
        out
    }
    fn edit_lost(&self) -> Option<u32> {
        None
    }
}

fn case<C: Ops>(c: &mut Ctx, spec: &Spec, rng: &mut Rng, name: &str) {
    let probe: C = build(spec);
    let f = probe.validate("C10 state");
    let expect = probe.contents();
    let len = expect.len();
    drop(probe);
    let masks: Vec<u64> = if spec.recipe == crate::states::Recipe::HugeSparse {
        // every sub-case rebuilds (and walks) the whole table: a handful of predicates instead of all subsets
        vec![0, u64::MAX, rng.next(), rng.next()]
    } else if len <= 10 && (c.thorough() || len <= 6) {
        (0..(1u64 << len)).collect()
    } else if len <= 10 {
        let mut v = vec![0, (1u64 << len) - 1];
        for _ in 0..24 {
            v.push(rng.below(1 << len));
        }
        v
    } else {
        (0..6).map(|_| rng.next()).collect()
    };
    for mask in masks {
        let salt = mask ^ 0x9e37;
        let sel = |id: u32, gen: u16| selected(mask, salt, rank_of(&expect, id, gen), len, id, gen);
        let want_true: Vec<(u32, u16)> = expect.iter().copied().filter(|e| sel(e.0, e.1)).collect();
        let want_false: Vec<(u32, u16)> = expect.iter().copied().filter(|e| !sel(e.0, e.1)).collect();
        let sigc = |c: &mut Ctx, op: u64, cut: u64| {
            c.evaluations += 1;
            c.sig_parts(&[crate::ctx::prop_salt(name), op, cut, f.class as u64, (f.deleted > 0) as u64, (want_true.len() == 0) as u64 + 2 * (want_false.len() == 0) as u64]);
        };
        // ---- retain: keeps exactly the 'true' set, predicate called once per element ----
        {
            let mut x: C = build(spec);
            let args = x.retain_by(&mut |id, g| sel(id, g));
            let what = format!("{} [{}] retain mask {:#x}", name, spec.describe(), mask);
            if sorted(args.clone()) != expect {
                crate::viol!("{}: predicate was called with {} arguments for {} elements (each element exactly once expected)", what, args.len(), len);
            }
            if x.contents() != want_true {
                crate::viol!("{}: survivors {:?}..., expected the {} selected elements", what, x.contents().iter().take(4).collect::<Vec<_>>(), want_true.len());
            }
            if let Some(kid) = x.edit_lost() {
                crate::viol!("{}: a mutation made through retain's &mut argument did not persist for key {}", what, kid);
            }
            x.validate(&what);
            sigc(c, 1, 0);
        }
        // ---- extract_if: yields and removes exactly visited && true; early drop keeps the unvisited ----
        let cuts: Vec<usize> = {
            let n = want_true.len();
            let mut v = vec![usize::MAX, 0];
            if n > 0 {
                v.push(1);
                v.push(n - 1);
                v.push(rng.usize_below(n + 1));
            }
            v.sort();
            v.dedup();
            v
        };
        for limit in cuts {
            let mut x: C = build(spec);
            let (out, trues, all) = x.extract_by(&mut |id, g| sel(id, g), limit);
            let what = format!("{} [{}] extract_if mask {:#x} limit {}", name, spec.describe(), mask, limit as i64);
            if sorted(out.clone()) != sorted(trues.clone()) {
                crate::viol!("{}: yielded {} elements but the predicate returned true for {} visited elements", what, out.len(), trues.len());
            }
            for o in &out {
                crate::check!(sel(o.0, o.1), "{}: yielded {:?} for which the predicate is false", what, o);
            }
            let mut a = all.clone();
            a.sort();
            a.dedup();
            crate::check!(a.len() == all.len(), "{}: predicate called twice for one element", what);
            let remaining: Vec<(u32, u16)> = expect.iter().copied().filter(|e| !out.contains(e)).collect();
            if x.contents() != remaining {
                crate::viol!("{}: after the ExtractIf was dropped the collection holds {} elements, expected {} (contents minus the {} yielded)", what, x.len(), remaining.len(), out.len());
            }
            if limit == usize::MAX {
                crate::check!(sorted(out.clone()) == want_true, "{}: exhausted ExtractIf yielded {} of the {} selected elements", what, out.len(), want_true.len());
                crate::check!(sorted(all) == expect, "{}: exhausted ExtractIf did not visit every element once", what);
            }
            x.validate(&what);
            sigc(c, 2, (limit == usize::MAX) as u64 + 2 * (limit == 0) as u64);
        }
        // ---- drain: each once; however much is consumed, the collection is empty, usable, allocation kept ----
        for take in [len, 0, rng.usize_below(len + 1)] {
            let mut x: C = build(spec);
            let blocks0 = ckalloc::live_blocks();
            let a0 = ckalloc::counters();
            let out = x.drain_ids(take);
            let a1 = ckalloc::counters();
            let what = format!("{} [{}] drain take {} of {}", name, spec.describe(), take, len);
            crate::check!(out.len() == take.min(len), "{}: yielded {}", what, out.len());
            let mut o = sorted(out.clone());
            o.dedup();
            crate::check!(o.len() == out.len() && out.iter().all(|e| expect.contains(e)), "{}: yielded an element twice or a foreign element", what);
            if take >= len {
                crate::check!(sorted(out) == expect, "{}: a fully consumed drain did not yield every element once", what);
            }
            crate::check!(x.len() == 0 && x.contents().is_empty(), "{}: collection not empty after the drain was dropped (len {})", what, x.len());
            crate::check!(a1.deallocs == a0.deallocs && a1.allocs == a0.allocs && ckalloc::live_blocks() == blocks0, "{}: drain did not keep the allocation", what);
            // still usable
            x.put(1 % C::id_space().max(1), 5);
            crate::check!(x.len() == 1 && x.has(1 % C::id_space().max(1)), "{}: collection unusable after drain", what);
            x.validate(&what);
            sigc(c, 3, (take >= len) as u64 + 2 * (take == 0) as u64);
        }
    }
}

/// HashTable of zero-sized duplicates: elements are indistinguishable, so counts are compared.
fn zst_table<ZT: Elem>(c: &mut Ctx, rng: &mut Rng) {
    use crate::ckalloc::CkAlloc;
    let n = *rng.pick(&[1usize, 2, 5, 8, 15, 16, 17, 40]);
    let h = rng.next();
    let mk = || {
        let mut t: hashbrown::HashTable<ZT, CkAlloc> = hashbrown::HashTable::new_in(CkAlloc);
        for _ in 0..n {
            t.insert_unique(h, ZT::make(0, 0), |_| h);
        }
        t
    };
    let what = format!("HashTable<{}> with {} duplicates (hash {:#x})", ZT::NAME, n, h);
    for keep_mod in [1usize, 2, 3, usize::MAX] {
        c.evaluations += 1;
        c.sig_parts(&[900, (n > 16) as u64, keep_mod.min(9) as u64]);
        let mut t = mk();
        let mut k = 0usize;
        t.retain(|_| {
            k += 1;
            keep_mod != usize::MAX && k % keep_mod == 0
        });
        let want = if keep_mod == usize::MAX { 0 } else { n / keep_mod };
        crate::check!(k == n, "{}: retain called its predicate {} times", what, k);
        crate::check!(t.len() == want && t.iter().count() == want, "{}: retain(keep every {}th) leaves len {} / iter {} instead of {}", what, keep_mod as i64, t.len(), t.iter().count(), want);
        let d = t.verif_dump();
        crate::validate::check_safety(&d, &what);
        let mut t = mk();
        let mut k = 0usize;
        let limit = rng.usize_below(n + 1);
        let mut got = 0usize;
        {
            let mut it = t.extract_if(|_| {
                k += 1;
                keep_mod != usize::MAX && k % keep_mod == 0
            });
            while got < limit {
                if it.next().is_none() {
                    break;
                }
                got += 1;
            }
        }
        crate::check!(t.len() == n - got && t.iter().count() == n - got, "{}: extract_if yielded {} but len is {} of {}", what, got, t.len(), n);
        let d = t.verif_dump();
        crate::validate::check_safety(&d, &what);
        let take = rng.usize_below(n + 1);
        let y = t.drain().take(take).count();
        crate::check!(y == take.min(n - got) && t.is_empty(), "{}: drain yielded {} and left len {}", what, y, t.len());
    }
}

pub fn run(c: &mut Ctx) {
    // every sub-case rebuilds the state: very large sparse states are capped at 2^24 buckets
    crate::states::set_huge_max_lg(24);
    c.run_scenarios(|c, idx, rng| {
        let recipe = RECIPES[((crate::util::mix(idx) / 10) % RECIPES.len() as u64) as usize];
        // one scenario in 40 on a very large sparse table (2^18..2^26 buckets)
        let recipe = if crate::util::mix(idx ^ 0xa7) % 40 == 0 { crate::states::Recipe::HugeSparse } else { recipe };
        let spec = Spec::random(rng, recipe);
        if spec.recipe == crate::states::Recipe::HugeSparse {
            c.bump("huge_sparse_states");
        }
        let mut d = Json::obj();
        d.set("state", Json::s(spec.describe()));
        d.set("case", Json::i(crate::util::mix(idx) % 10));
        c.describe(d);
        match crate::util::mix(idx) % 10 {
            0 => case::<MapC<T24, T24>>(c, &spec, rng, "map:T24xT24"),
            1 => case::<MapC<P8, P8>>(c, &spec, rng, "map:P8xP8"),
            2 if rng.chance(1, 3) => case::<MapC<P8, crate::elem::L600>>(c, &spec, rng, "map:P8xL600"),
            2 => case::<MapC<B1, T24>>(c, &spec, rng, "map:B1xT24"),
            3 => case::<SetC<T24>>(c, &spec, rng, "set:T24"),
            4 => case::<SetC<B1>>(c, &spec, rng, "set:B1"),
            5 if rng.chance(1, 4) => case::<TableC<crate::elem::L4K>>(c, &spec, rng, "table:L4K"),
            5 => case::<TableC<T24>>(c, &spec, rng, "table:T24"),
            6 => case::<TableC<P8>>(c, &spec, rng, "table:P8"),
            7 => case::<SetC<Z>>(c, &spec, rng, "set:Z"),
            8 => case::<TableC<Z>>(c, &spec, rng, "table:Z"),
            _ => {
                zst_table::<Z>(c, rng);
                zst_table::<Z8>(c, rng);
                case::<TableC<Z8>>(c, &spec, rng, "table:Z8");
            }
        }
    });
}
