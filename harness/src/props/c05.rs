//! C05: broken Hash/Eq implementations cannot cause undefined behaviour.
//! The drivers run with the Chaos plan: every hash is a fresh pseudo-random draw from a small
//! palette (so collisions and moves both happen) and Eq lies with a given probability. No
//! comparison with a model is made; only the safety subset is judged: sanitizer of the lane,
//! allocator ledger, element registry, I1-I4/I6, len() == iter().count() == number drained,
//! exactly-once drop at scenario end, bounded equality calls per lookup.

use crate::ctx::Ctx;
use crate::elem::Elem;
use crate::mapdrv::{MapDrv, W_GENERAL};
use crate::plan::{chaos_seed, Plan, PlanBH};
use crate::tabledrv::{TableDrv, TW_GENERAL};
use crate::util::{Json, Rng};
use crate::{for_elem, for_pair};

const PAIRS: [&str; 6] = ["T24xT24", "P8xP8", "P8xT24", "B1xB1", "L200xB1", "L600xB1"];
const ELEMS: [&str; 5] = ["T24", "P8", "L200", "B3", "L600"];
const SET_ELEMS: [&str; 3] = ["T24", "P8", "B3"];

pub fn run(c: &mut Ctx) {
    c.run_scenarios(|c, idx, rng| {
        let m = crate::util::mix(idx);
        if m % 7 == 5 {
            let e = SET_ELEMS[((m / 7) % SET_ELEMS.len() as u64) as usize];
            for_elem!(e, set_scenario(c, rng));
        } else if m % 4 == 3 {
            let pair = PAIRS[((m / 4) % PAIRS.len() as u64) as usize];
            for_pair!(pair, late_chaos_scenario(c, rng));
        } else if m % 3 < 2 {
            let pair = PAIRS[((m / 3) % PAIRS.len() as u64) as usize];
            for_pair!(pair, map_scenario(c, rng));
        } else {
            let e = ELEMS[((m / 3) % ELEMS.len() as u64) as usize];
            for_elem!(e, table_scenario(c, rng));
        }
    });
}

fn setup(c: &mut Ctx, rng: &mut Rng) -> (u64, u64) {
    // Eq lies in 0%, 2%, 20% or 50% of its answers; hashes come from 2..64 distinct values
    let eq_permille = *rng.pick(&[0u64, 20, 200, 500]);
    let palette = *rng.pick(&[2u64, 4, 16, 64]);
    chaos_seed(rng.next(), eq_permille, palette);
    c.sig_parts(&[eq_permille, palette]);
    (eq_permille, palette)
}

pub fn map_scenario<K: Elem, V: Elem>(c: &mut Ctx, rng: &mut Rng) {
    let (eqp, pal) = setup(c, rng);
    let universe = *rng.pick(&[4u32, 8, 16, 40]);
    let n_ops = if c.is_miri() { 40 } else { *rng.pick(&[40usize, 120, 300]) };
    let mut d: MapDrv<K, V> = MapDrv::new(PlanBH::new(Plan::Chaos, rng.next()), universe, *rng.pick(&[0usize, 3, 14]));
    d.max_live = 400;
    let mut desc = d.describe("C05 chaos history");
    desc.set("eq_lies_permille", Json::i(eqp));
    desc.set("hash_palette", Json::i(pal));
    c.describe(desc);
    for _ in 0..n_ops {
        if !d.step(c, rng, &W_GENERAL) {
            break;
        }
    }
    // len() equals the number of elements the collection yields when drained
    let len = d.map.len();
    let drained = d.map.drain().count();
    crate::check!(drained == len, "C05: drain yielded {} elements, len() was {}", drained, len);
    drop(d);
    crate::plan::chaos_off();
}

pub fn table_scenario<E: Elem>(c: &mut Ctx, rng: &mut Rng) {
    let (eqp, pal) = setup(c, rng);
    let universe = *rng.pick(&[2u32, 8, 24]);
    let n_ops = if c.is_miri() { 40 } else { *rng.pick(&[40usize, 120, 300]) };
    let mut d: TableDrv<E> = TableDrv::new(PlanBH::new(Plan::Chaos, rng.next()), universe, 0);
    d.max_live = 300;
    let mut desc = d.describe("C05 chaos history");
    desc.set("eq_lies_permille", Json::i(eqp));
    desc.set("hash_palette", Json::i(pal));
    c.describe(desc);
    for _ in 0..n_ops {
        if !d.step(c, rng, &TW_GENERAL) {
            break;
        }
    }
    let len = d.t.len();
    let drained = d.t.drain().count();
    crate::check!(drained == len, "C05: table drain yielded {} elements, len() was {}", drained, len);
    drop(d);
    crate::plan::chaos_off();
}

/// Broken hashing sets in on a table that was built lawfully in a target state (tombstone-saturated,
/// random control-byte layout, full, ...): entry-style and plain operations follow.
pub fn late_chaos_scenario<K: Elem, V: Elem>(c: &mut Ctx, rng: &mut Rng) {
    use crate::mapdrv::W_ENTRY;
    use crate::props::c04::{build_state, Recipe, StateSpec};
    let recipe = *rng.pick(&[Recipe::Saturated, Recipe::SaturatedRandom, Recipe::Layout, Recipe::Layout, Recipe::Full, Recipe::Tombstoned]);
    let spec = StateSpec { plan: Plan::IdentThenChaos, salt: rng.next(), recipe, seed: rng.next(), size: rng.below(1000) as u32 };
    crate::plan::chaos_late(false);
    let mut d = build_state::<K, V>(&spec, c);
    // the map was built under lawful (identity) hashing; from here on Hash lies
    let eq_permille = *rng.pick(&[0u64, 0, 20, 200]);
    let palette = *rng.pick(&[4u64, 16, 64]);
    chaos_seed(rng.next(), eq_permille, palette);
    crate::plan::chaos_late(true);
    d.compare = false;
    d.lawful = false;
    d.validate_every = if crate::util::slow_lane() { 6 } else { 1 };
    d.universe = ((d.model.len() as u32) * 2 + 8).min(K::ID_SPACE);
    d.max_live = 400;
    let mut desc = d.describe("C05 late chaos on a lawfully built state");
    desc.set("recipe", Json::s(format!("{:?}", recipe)));
    desc.set("eq_lies_permille", Json::i(eq_permille));
    c.describe(desc);
    c.bump("late_chaos_scenarios");
    c.sig_parts(&[77, recipe as u64, eq_permille]);
    let n_ops = if c.is_miri() { 20 } else { *rng.pick(&[10usize, 40, 120]) };
    for i in 0..n_ops {
        let w = if i % 2 == 0 { &W_ENTRY } else { &W_GENERAL };
        if !d.step(c, rng, w) {
            break;
        }
    }
    let len = d.map.len();
    let drained = d.map.drain().count();
    crate::check!(drained == len, "C05: drain yielded {} elements, len() was {}", drained, len);
    drop(d);
    crate::plan::chaos_off();
}

/// HashSet under broken Hash/Eq: point operations, entry, the set-relation iterators and the in-place operators
/// between two live sets (`|= &= ^= -=` look the same element up twice and must not trust that both lookups
/// agree), either broken from the start or only after the sets were built lawfully up to exactly their capacity.
pub fn set_scenario<T: Elem>(c: &mut Ctx, rng: &mut Rng) {
    use crate::ckalloc::CkAlloc;
    use crate::plan::KeyRef;
    use crate::states::{Coll, Set, SetC};
    use crate::util::catch_expected;
    let late = rng.chance(1, 2);
    let plan = if late { Plan::IdentThenChaos } else { Plan::Chaos };
    let universe = (*rng.pick(&[6u32, 12, 30, 64])).min(T::ID_SPACE);
    let eq_permille = *rng.pick(&[0u64, 0, 20, 200, 500]);
    let palette = *rng.pick(&[2u64, 4, 16, 64]);
    if late {
        crate::plan::chaos_late(false);
    } else {
        chaos_seed(rng.next(), eq_permille, palette);
    }
    let bha = PlanBH::new(plan, rng.next());
    let bhb = PlanBH::new(plan, rng.next());
    crate::plan::set_current(plan, rng.next());
    let mut a: SetC<T> = SetC(Set::with_capacity_and_hasher_in(*rng.pick(&[0usize, 3, 7, 14]), bha, CkAlloc));
    let mut b: SetC<T> = SetC(Set::with_hasher_in(bhb, CkAlloc));
    let fill_full = rng.chance(2, 3);
    for id in 0..universe {
        if fill_full {
            if a.0.len() > 0 && a.0.len() == a.0.capacity() {
                break;
            }
            a.0.insert(T::make(id, 1));
        } else if rng.chance(1, 2) {
            a.0.insert(T::make(id, 1));
        }
    }
    for id in 0..universe {
        if rng.chance(1, 2) {
            b.0.insert(T::make(id, 2));
        }
    }
    if late {
        chaos_seed(rng.next(), eq_permille, palette);
        crate::plan::chaos_late(true);
    }
    let mut d = Json::obj();
    d.set("case", Json::s("C05 HashSet under broken Hash/Eq"));
    d.set("element", Json::s(T::NAME));
    d.set("broken_from", Json::s(if late { "after a lawful build" } else { "the start" }));
    d.set("a_at_capacity", Json::Bool(a.0.len() == a.0.capacity()));
    d.set("eq_lies_permille", Json::i(eq_permille));
    d.set("hash_palette", Json::i(palette));
    c.describe(d);
    c.bump("set_scenarios");
    if a.0.len() == a.0.capacity() {
        c.bump("set_scenarios_starting_at_capacity");
    }
    c.sig_parts(&[88, late as u64, eq_permille, palette]);
    let n_ops = if c.is_miri() { 16 } else { *rng.pick(&[12usize, 40, 120]) };
    let safe = |what: &str, a: &SetC<T>, b: &SetC<T>| {
        a.validate(what);
        b.validate(what);
        let (la, lb) = (a.0.len(), b.0.len());
        let (ia, ib) = (a.0.iter().count(), b.0.iter().count());
        crate::check!(la == ia && lb == ib, "C05 set {}: len() {} / {} but iter() yields {} / {}", what, la, lb, ia, ib);
        for e in a.0.iter().chain(b.0.iter()) {
            e.check();
        }
    };
    for step in 0..n_ops {
        let id = rng.below(universe as u64 + 2) as u32 % T::ID_SPACE;
        let g = 100 + step as u16;
        let op = rng.below(22);
        c.evaluations += 1;
        c.sig_parts(&[89, op, late as u64]);
        crate::oplog!(c, "set op {} id {}", op, id);
        if a.0.len() + b.0.len() > 600 {
            a.0.clear();
        }
        match op {
            0 => {
                a.0.insert(T::make(id, g));
            }
            1 => {
                if let Some(x) = a.0.replace(T::make(id, g)) {
                    x.check();
                }
            }
            2 => {
                a.0.remove(&KeyRef(id));
            }
            3 => {
                if let Some(x) = a.0.take(&KeyRef(id)) {
                    x.check();
                }
            }
            4 => {
                let _ = a.0.contains(&KeyRef(id));
                if let Some(x) = a.0.get(&T::make(id, g)) {
                    x.check();
                }
            }
            5 => {
                a.0.get_or_insert(T::make(id, g)).check();
            }
            6 => {
                // the equivalence assertion may legitimately fire under a lying Eq
                let set = &mut a.0;
                let _ = catch_expected(move || {
                    set.get_or_insert_with(&KeyRef(id), |q| T::make(q.0, g)).check();
                });
            }
            7 => {
                use hashbrown::hash_set::Entry;
                match a.0.entry(T::make(id, g)) {
                    Entry::Occupied(o) => {
                        o.get().check();
                        if rng.chance(1, 2) {
                            o.remove().check();
                        }
                    }
                    Entry::Vacant(v) => {
                        if rng.chance(2, 3) {
                            v.insert();
                        }
                    }
                }
            }
            8 => {
                let salt = rng.next();
                a.0.retain(|e| crate::util::mix(salt ^ e.id() as u64) % 3 != 0);
            }
            9 => {
                let salt = rng.next();
                let take = rng.usize_below(4);
                let n = a.0.extract_if(|e| crate::util::mix(salt ^ e.id() as u64) % 2 == 0).take(take).count();
                crate::check!(n <= take, "extract_if yielded more than taken");
            }
            10 => {
                let take = rng.usize_below(3);
                let mut dr = b.0.drain();
                for _ in 0..take {
                    if let Some(x) = dr.next() {
                        x.check();
                    }
                }
                drop(dr);
                crate::check!(b.0.is_empty(), "C05 set: not empty after drain");
                for i in 0..universe {
                    if rng.chance(1, 2) {
                        b.0.insert(T::make(i, g));
                    }
                }
            }
            11 => a.0 |= &b.0,
            12 => a.0 &= &b.0,
            13 | 14 | 15 => a.0 ^= &b.0,
            16 => a.0 -= &b.0,
            17 => {
                let bound = a.0.len() + b.0.len();
                let counts = [a.0.union(&b.0).count(), a.0.intersection(&b.0).count(), a.0.difference(&b.0).count(), a.0.symmetric_difference(&b.0).count()];
                for n in counts {
                    crate::check!(n <= bound, "C05 set: a set-relation iterator yielded {} elements from sets of {} and {}", n, a.0.len(), b.0.len());
                }
                let _ = (a.0.is_subset(&b.0), a.0.is_superset(&b.0), a.0.is_disjoint(&b.0), a.0 == b.0);
            }
            18 => {
                let r = match rng.below(4) {
                    0 => &a.0 | &b.0,
                    1 => &a.0 & &b.0,
                    2 => &a.0 ^ &b.0,
                    _ => &a.0 - &b.0,
                };
                for e in r.iter() {
                    e.check();
                }
                crate::check!(r.len() == r.iter().count(), "C05 set: operator result len() {} != iter().count()", r.len());
            }
            19 => {
                if rng.chance(1, 2) {
                    a.0.clone_from(&b.0);
                } else {
                    std::mem::swap(&mut a, &mut b);
                }
            }
            20 => {
                if rng.chance(1, 2) {
                    a.0.reserve(rng.usize_below(20));
                } else {
                    a.0.shrink_to_fit();
                }
            }
            _ => {
                let items: Vec<T> = b.0.iter().map(|e| T::make(e.id(), g)).collect();
                a.0.extend(items);
            }
        }
        if step % (if crate::util::slow_lane() { 4 } else { 1 }) == 0 {
            safe("after an operation", &a, &b);
        }
    }
    safe("at the end", &a, &b);
    let len = a.0.len();
    let drained = a.0.drain().count();
    crate::check!(drained == len, "C05 set: drain yielded {} elements, len() was {}", drained, len);
    drop(a);
    drop(b);
    crate::plan::chaos_off();
}
