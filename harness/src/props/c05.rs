//! C05: broken Hash/Eq implementations cannot cause undefined behaviour.
//! The drivers run with the Chaos plan: every hash is a fresh pseudo-random draw from a small
//! palette (so collisions and moves both happen) and Eq lies with a given probability. No
//! comparison with a model is made; only the safety subset is judged: sanitizer of the lane,
//! allocator ledger, element registry, I1-I4/I6, len() == iter().count() == number drained,
//! exactly-once drop at scenario end, bounded equality calls per lookup.

use crate::ctx::Ctx;
use crate::elem::Elem;
use crate::mapdrv::{MapDrv, W_GENERAL};
use crate::plan::{chaos_seed, Plan, PlanBH};
use crate::tabledrv::{TableDrv, TW_GENERAL};
use crate::util::{Json, Rng};
use crate::{for_elem, for_pair};

const PAIRS: [&str; 5] = ["T24xT24", "P8xP8", "P8xT24", "B1xB1", "L200xB1"];
const ELEMS: [&str; 4] = ["T24", "P8", "L200", "B3"];

pub fn run(c: &mut Ctx) {
    c.run_scenarios(|c, idx, rng| {
        let m = crate::util::mix(idx);
        if m % 4 == 3 {
            let pair = PAIRS[((m / 4) % PAIRS.len() as u64) as usize];
            for_pair!(pair, late_chaos_scenario(c, rng));
        } else if m % 3 < 2 {
            let pair = PAIRS[((m / 3) % PAIRS.len() as u64) as usize];
            for_pair!(pair, map_scenario(c, rng));
        } else {
            let e = ELEMS[((m / 3) % ELEMS.len() as u64) as usize];
            for_elem!(e, table_scenario(c, rng));
        }
    });
}

fn setup(c: &mut Ctx, rng: &mut Rng) -> (u64, u64) {
    // Eq lies in 0%, 2%, 20% or 50% of its answers; hashes come from 2..64 distinct values
    let eq_permille = *rng.pick(&[0u64, 20, 200, 500]);
    let palette = *rng.pick(&[2u64, 4, 16, 64]);
    chaos_seed(rng.next(), eq_permille, palette);
    c.sig_parts(&[eq_permille, palette]);
    (eq_permille, palette)
}

pub fn map_scenario<K: Elem, V: Elem>(c: &mut Ctx, rng: &mut Rng) {
    let (eqp, pal) = setup(c, rng);
    let universe = *rng.pick(&[4u32, 8, 16, 40]);
    let n_ops = if c.is_miri() { 40 } else { *rng.pick(&[40usize, 120, 300]) };
    let mut d: MapDrv<K, V> = MapDrv::new(PlanBH::new(Plan::Chaos, rng.next()), universe, *rng.pick(&[0usize, 3, 14]));
    d.max_live = 400;
    let mut desc = d.describe("C05 chaos history");
    desc.set("eq_lies_permille", Json::i(eqp));
    desc.set("hash_palette", Json::i(pal));
    c.describe(desc);
    for _ in 0..n_ops {
        if !d.step(c, rng, &W_GENERAL) {
            break;
        }
    }
    // len() equals the number of elements the collection yields when drained
    let len = d.map.len();
    let drained = d.map.drain().count();
    crate::check!(drained == len, "C05: drain yielded {} elements, len() was {}", drained, len);
    drop(d);
    crate::plan::chaos_off();
}

pub fn table_scenario<E: Elem>(c: &mut Ctx, rng: &mut Rng) {
    let (eqp, pal) = setup(c, rng);
    let universe = *rng.pick(&[2u32, 8, 24]);
    let n_ops = if c.is_miri() { 40 } else { *rng.pick(&[40usize, 120, 300]) };
    let mut d: TableDrv<E> = TableDrv::new(PlanBH::new(Plan::Chaos, rng.next()), universe, 0);
    d.max_live = 300;
    let mut desc = d.describe("C05 chaos history");
    desc.set("eq_lies_permille", Json::i(eqp));
    desc.set("hash_palette", Json::i(pal));
    c.describe(desc);
    for _ in 0..n_ops {
        if !d.step(c, rng, &TW_GENERAL) {
            break;
        }
    }
    let len = d.t.len();
    let drained = d.t.drain().count();
    crate::check!(drained == len, "C05: table drain yielded {} elements, len() was {}", drained, len);
    drop(d);
    crate::plan::chaos_off();
}

/// Broken hashing sets in on a table that was built lawfully in a target state (tombstone-saturated,
/// random control-byte layout, full, ...): entry-style and plain operations follow.
pub fn late_chaos_scenario<K: Elem, V: Elem>(c: &mut Ctx, rng: &mut Rng) {
    use crate::mapdrv::W_ENTRY;
    use crate::props::c04::{build_state, Recipe, StateSpec};
    let recipe = *rng.pick(&[Recipe::Saturated, Recipe::SaturatedRandom, Recipe::Layout, Recipe::Layout, Recipe::Full, Recipe::Tombstoned]);
    let spec = StateSpec { plan: Plan::IdentThenChaos, salt: rng.next(), recipe, seed: rng.next(), size: rng.below(1000) as u32 };
    crate::plan::chaos_late(false);
    let mut d = build_state::<K, V>(&spec, c);
    // the map was built under lawful (identity) hashing; from here on Hash lies
    let eq_permille = *rng.pick(&[0u64, 0, 20, 200]);
    let palette = *rng.pick(&[4u64, 16, 64]);
    chaos_seed(rng.next(), eq_permille, palette);
    crate::plan::chaos_late(true);
    d.compare = false;
    d.lawful = false;
    d.validate_every = if crate::util::slow_lane() { 6 } else { 1 };
    d.universe = ((d.model.len() as u32) * 2 + 8).min(K::ID_SPACE);
    d.max_live = 400;
    let mut desc = d.describe("C05 late chaos on a lawfully built state");
    desc.set("recipe", Json::s(format!("{:?}", recipe)));
    desc.set("eq_lies_permille", Json::i(eq_permille));
    c.describe(desc);
    c.bump("late_chaos_scenarios");
    c.sig_parts(&[77, recipe as u64, eq_permille]);
    let n_ops = if c.is_miri() { 20 } else { *rng.pick(&[10usize, 40, 120]) };
    for i in 0..n_ops {
        let w = if i % 2 == 0 { &W_ENTRY } else { &W_GENERAL };
        if !d.step(c, rng, w) {
            break;
        }
    }
    let len = d.map.len();
    let drained = d.map.drain().count();
    crate::check!(drained == len, "C05: drain yielded {} elements, len() was {}", drained, len);
    drop(d);
    crate::plan::chaos_off();
}
