//! C15: multi-key mutable borrows never alias.

use crate::ctx::Ctx;
use crate::elem::{Elem, B1, L200, P8, T24};
use crate::mapdrv::{pick_plan, MapDrv};
use crate::plan::{plan_hash, KeyRef, LooseRef, Plan};
use crate::props::c04::{build_state, Recipe, StateSpec};
use crate::states::{build, Coll, Spec, TableC, RECIPES};
use crate::util::{catch_expected, Json, Rng};

/// `addrs`: (address, size) of every returned reference; any overlap is an aliasing violation.
fn no_overlap(what: &str, addrs: &[(usize, usize)]) {
    for i in 0..addrs.len() {
        for j in 0..i {
            let (a, sa) = addrs[i];
            let (b, sb) = addrs[j];
            let overlap = if sa == 0 || sb == 0 { false } else { a < b + sb && b < a + sa };
            if overlap {
                crate::viol!("{}: results {} and {} are mutable references to overlapping memory ({:#x}+{} and {:#x}+{})", what, j, i, b, sb, a, sa);
            }
        }
    }
}

fn pick_ids<K: Elem, V: Elem, const N: usize>(d: &MapDrv<K, V>, rng: &mut Rng) -> [u32; N] {
    let mut ids = [0u32; N];
    for i in 0..N {
        ids[i] = match rng.below(10) {
            // a present key
            0..=4 if !d.model.e.is_empty() => d.model.e[rng.usize_below(d.model.e.len())].id,
            // a duplicate of an earlier request
            5 | 6 if i > 0 => ids[rng.usize_below(i)],
            // an absent (or arbitrary) key
            _ => rng.below(d.universe as u64 + 3) as u32 % K::ID_SPACE,
        };
    }
    ids
}

fn map_many<K: Elem, V: Elem, const N: usize>(c: &mut Ctx, d: &mut MapDrv<K, V>, rng: &mut Rng, kv: bool) {
    let ids: [u32; N] = pick_ids(d, rng);
    let krefs: [KeyRef; N] = ids.map(KeyRef);
    let ks: [&KeyRef; N] = std::array::from_fn(|i| &krefs[i]);
    let present: [bool; N] = ids.map(|id| d.model.pos(id).is_some());
    let mut dup = false;
    for i in 0..N {
        for j in 0..i {
            if ids[i] == ids[j] && present[i] {
                dup = true;
            }
        }
    }
    let what = format!("HashMap<{},{}>::{}({:?}) present {:?}", K::NAME, V::NAME, if kv { "get_many_key_value_mut" } else { "get_many_mut" }, ids, present);
    c.evaluations += 1;
    c.sig_parts(&[N as u64, kv as u64, dup as u64, present.iter().filter(|p| **p).count() as u64, crate::ctx::prop_salt(K::NAME)]);
    c.log(what.clone());
    // new payloads, one per request, written through the returned references (sentinel writes)
    let newvals: [(u32, u16); N] = std::array::from_fn(|i| ((9000 + i as u32) % V::ID_SPACE, 600 + i as u16));
    let map = &mut d.map;
    let r = catch_expected(|| {
        let mut addrs = Vec::new();
        let mut got_some = [false; N];
        if kv {
            let res = map.get_many_key_value_mut(ks);
            for (i, slot) in res.into_iter().enumerate() {
                if let Some((k, v)) = slot {
                    k.check();
                    v.check();
                    crate::check!(k.id() == ids[i], "{}: result {} is the entry of key {}", what, i, k.id());
                    addrs.push((v as *mut V as usize, std::mem::size_of::<V>()));
                    got_some[i] = true;
                    *v = V::make(newvals[i].0, newvals[i].1);
                }
            }
        } else {
            let res = map.get_many_mut(ks);
            for (i, slot) in res.into_iter().enumerate() {
                if let Some(v) = slot {
                    v.check();
                    addrs.push((v as *mut V as usize, std::mem::size_of::<V>()));
                    got_some[i] = true;
                    *v = V::make(newvals[i].0, newvals[i].1);
                }
            }
        }
        (addrs, got_some)
    });
    match r {
        Err(msg) => {
            if !dup {
                crate::viol!("{}: panicked ({}) although no two requests resolve to the same entry", what, msg);
            } else {
                crate::check!(msg.contains("duplicate"), "{}: panicked with an unexpected message: {}", what, msg);
                c.bump("duplicate_panics_observed");
            }
        }
        Ok((addrs, got_some)) => {
            if dup {
                crate::viol!("{}: returned although two requests resolve to the same entry (it must panic instead)", what);
            }
            no_overlap(&what, &addrs);
            for i in 0..N {
                crate::check!(got_some[i] == present[i], "{}: request {} (key {}) yielded {} but the key is {}", what, i, ids[i], if got_some[i] { "Some" } else { "None" }, if present[i] { "present" } else { "absent" });
                if got_some[i] && !dup {
                    if let Some(p) = d.model.pos(ids[i]) {
                        d.model.e[p].v = newvals[i].0;
                        d.model.e[p].vgen = if V::HAS_GEN { newvals[i].1 } else { 0 };
                    }
                }
            }
            c.bump("calls_returned");
        }
    }
    // the writes landed in exactly the requested entries (full comparison with the model) and the structure is intact
    if d.skip_contents {
        for id in ids.iter() {
            let got = d.map.get(&KeyRef(*id)).map(|v| (v.id(), v.gen()));
            let want = d.model.get(*id).map(|m| (m.v, m.vgen));
            crate::check!(got == want, "{}: after the call key {} holds {:?}, the model {:?} (a write landed in the wrong entry)", what, id, got, want);
        }
    }
    d.validate(c, "get_many_mut");
}

fn map_case<K: Elem, V: Elem>(c: &mut Ctx, rng: &mut Rng) {
    let recipe = *rng.pick(&[Recipe::Small, Recipe::Full, Recipe::Saturated, Recipe::SaturatedRandom, Recipe::Layout, Recipe::Tombstoned, Recipe::History, Recipe::Fresh]);
    // colliding plans make position- and tag-colliding keys the normal case
    let plan = if matches!(recipe, Recipe::Layout) {
        Plan::Ident
    } else if rng.chance(1, 2) { *rng.pick(&[Plan::Zero, Plan::SamePos, Plan::SameTag, Plan::Palette(2, 2), Plan::Palette(1, 3), Plan::IdentOneTag, Plan::Tail]) } else { pick_plan(rng) };
    let spec = StateSpec { plan, salt: rng.next(), recipe, seed: rng.next(), size: rng.below(1000) as u32 };
    let mut d = build_state::<K, V>(&spec, c);
    d.universe = ((d.model.len() as u32) + 4).min(K::ID_SPACE);
    let mut desc = d.describe("C15");
    desc.set("recipe", Json::s(format!("{:?}", recipe)));
    c.describe(desc);
    let rounds = if c.is_miri() { 3 } else { 12 };
    for _ in 0..rounds {
        let kv = rng.chance(1, 2);
        match rng.below(5) {
            0 => map_many::<K, V, 0>(c, &mut d, rng, kv),
            1 => map_many::<K, V, 1>(c, &mut d, rng, kv),
            2 => map_many::<K, V, 2>(c, &mut d, rng, kv),
            3 => map_many::<K, V, 3>(c, &mut d, rng, kv),
            _ => map_many::<K, V, 4>(c, &mut d, rng, kv),
        }
        if crate::util::has_violation() {
            return;
        }
    }
}

/// Many requests (N up to 20) for ONE entry through an unlawful borrowed form whose hashes all differ
/// (plan `identonetag`: position = low id bits, one tag, so every request still reaches the entry):
/// the call must panic, or at least never hand out overlapping references.
fn map_many_loose<K: Elem, V: Elem, const N: usize>(c: &mut Ctx, rng: &mut Rng) {
    use crate::plan::PlanBH;
    let n = 1 + rng.below(12) as u32;
    let mut d: MapDrv<K, V> = MapDrv::new(PlanBH::new(Plan::IdentOneTag, rng.next()), 64, *rng.pick(&[0usize, 3, 14]));
    for id in 0..n {
        let (k, kg) = d.mk_k(id);
        let (v, vv, vg) = d.mk_v(rng);
        d.map.insert(k, v);
        d.model.insert(id, kg, vv, vg);
    }
    let target = rng.below(n as u64) as u32;
    // requests: mostly the target under different classes, a few other present/absent keys in between
    let reqs: [LooseRef; N] = std::array::from_fn(|i| {
        if rng.chance(1, 6) {
            LooseRef { id: rng.below(n as u64 + 3) as u32, class: 0 }
        } else {
            LooseRef { id: target, class: i as u32 + 1 }
        }
    });
    let ks: [&LooseRef; N] = std::array::from_fn(|i| &reqs[i]);
    let dup = (0..N).any(|i| (0..i).any(|j| reqs[i].id == reqs[j].id && reqs[i].id < n));
    let what = format!("HashMap<{},{}>::get_many_mut with {} requests through an unlawful borrowed form (one entry under many hashes)", K::NAME, V::NAME, N);
    let mut desc = d.describe("C15 many requests for one entry");
    desc.set("N", Json::i(N));
    c.describe(desc);
    c.evaluations += 1;
    c.sig_parts(&[200 + N as u64, dup as u64]);
    let map = &mut d.map;
    let r = catch_expected(|| {
        let res = map.get_many_mut(ks);
        let mut addrs = Vec::new();
        for v in res.into_iter().flatten() {
            addrs.push((v as *mut V as usize, std::mem::size_of::<V>()));
        }
        addrs
    });
    match r {
        Err(msg) => {
            crate::check!(msg.contains("duplicate"), "{}: unexpected panic {}", what, msg);
            crate::check!(dup, "{}: panicked although no two requests name the same key", what);
            c.bump("duplicate_panics_observed");
        }
        Ok(addrs) => {
            no_overlap(&what, &addrs);
            crate::check!(!dup, "{}: returned {} references although several requests resolve to one entry", what, addrs.len());
            c.bump("calls_returned");
        }
    }
    d.validate(c, "get_many_mut (loose)");
}

/// Large tables (thousands of buckets, reached by growth or by reserve): request order and own-entry must hold there too.
fn big_map_case<K: Elem, V: Elem>(c: &mut Ctx, rng: &mut Rng) {
    use crate::plan::PlanBH;
    let n = if c.is_miri() { 200u32 } else { *rng.pick(&[600u32, 4000, 9000, 20000]) };
    let plan = *rng.pick(&[Plan::Mixed, Plan::Mixed, Plan::Ident, Plan::Stride]);
    let reserve = if rng.chance(1, 2) { *rng.pick(&[0usize, 5000, 40000]) } else { 0 };
    let mut d: MapDrv<K, V> = MapDrv::new(PlanBH::new(plan, rng.next()), (2 * n).min(K::ID_SPACE), reserve);
    d.validate_every = u32::MAX;
    d.skip_contents = true;
    for id in 0..n {
        let (k, kg) = d.mk_k(id);
        let (v, vv, vg) = d.mk_v(rng);
        d.map.insert(k, v);
        d.model.insert(id, kg, vv, vg);
    }
    let mut desc = d.describe("C15 large table");
    desc.set("entries", Json::i(n));
    desc.set("reserved", Json::i(reserve));
    c.describe(desc);
    c.bump("large_table_cases");
    let rounds = if c.is_miri() { 2 } else { 6 };
    for _ in 0..rounds {
        let kv = rng.chance(1, 2);
        match rng.below(3) {
            0 => map_many::<K, V, 2>(c, &mut d, rng, kv),
            1 => map_many::<K, V, 3>(c, &mut d, rng, kv),
            _ => map_many::<K, V, 4>(c, &mut d, rng, kv),
        }
        if crate::util::has_violation() {
            return;
        }
    }
    d.skip_contents = false;
    d.validate(c, "C15 large table, final");
}

/// HashTable::get_many_mut with lawful and with sloppy equality closures (which may match several entries).
fn table_many<E: Elem, const N: usize>(c: &mut Ctx, t: &mut TableC<E>, rng: &mut Rng) {
    let contents = t.contents();
    let bh = t.1;
    let space = (contents.len() as u32 + 4).min(E::ID_SPACE);
    let mut ids = [0u32; N];
    for i in 0..N {
        ids[i] = match rng.below(10) {
            0..=4 if !contents.is_empty() => contents[rng.usize_below(contents.len())].0,
            5 | 6 if i > 0 => ids[rng.usize_below(i)],
            _ => rng.below(space as u64) as u32,
        };
    }
    // sloppiness: 0 lawful (eq by id), m>0: eq matches any element whose id is congruent mod m
    let sloppy = if rng.chance(1, 2) { 0 } else { 1 + rng.below(3) as u32 };
    // with a sloppy closure the hashes handed in may also be "wrong" (another element's hash): different hashes, one bucket
    let hashes: [u64; N] = std::array::from_fn(|i| {
        let id = if sloppy > 0 && rng.chance(1, 3) && !contents.is_empty() { contents[rng.usize_below(contents.len())].0 } else { ids[i] };
        plan_hash(bh.plan, bh.salt, id as u64)
    });
    let what = format!("HashTable<{}>::get_many_mut ids {:?} sloppy {} plan {}", E::NAME, ids, sloppy, bh.plan.name());
    c.evaluations += 1;
    c.sig_parts(&[100 + N as u64, sloppy as u64, crate::ctx::prop_salt(E::NAME)]);
    c.log(what.clone());
    let present: [bool; N] = ids.map(|id| contents.iter().any(|e| e.0 == id));
    let mut lawful_dup = false;
    for i in 0..N {
        for j in 0..i {
            if ids[i] == ids[j] && present[i] {
                lawful_dup = true;
            }
        }
    }
    let table = &mut t.0;
    let r = catch_expected(|| {
        let res = table.get_many_mut(hashes, |i, e| {
            e.check();
            if sloppy == 0 {
                e.id() == ids[i]
            } else {
                e.id() % (sloppy + 1) == ids[i] % (sloppy + 1)
            }
        });
        let mut addrs = Vec::new();
        let mut some = [false; N];
        for (i, slot) in res.into_iter().enumerate() {
            if let Some(e) = slot {
                e.check();
                addrs.push((e as *mut E as usize, std::mem::size_of::<E>()));
                some[i] = true;
            }
        }
        (addrs, some)
    });
    match r {
        Err(msg) => {
            crate::check!(msg.contains("duplicate"), "{}: panicked with an unexpected message: {}", what, msg);
            if sloppy == 0 && !lawful_dup {
                crate::viol!("{}: panicked ({}) although the lawful requests resolve to distinct entries", what, msg);
            }
            c.bump("duplicate_panics_observed");
        }
        Ok((addrs, some)) => {
            // whatever the closure does: the returned references must never alias
            no_overlap(&what, &addrs);
            if sloppy == 0 {
                crate::check!(!lawful_dup, "{}: returned although two requests resolve to the same entry", what);
                for i in 0..N {
                    crate::check!(some[i] == present[i], "{}: request {} presence wrong", what, i);
                }
            } else {
                c.bump("sloppy_calls_returned");
            }
            c.bump("calls_returned");
        }
    }
    t.validate(&what);
}

fn table_case<E: Elem>(c: &mut Ctx, rng: &mut Rng) {
    let recipe = RECIPES[rng.usize_below(RECIPES.len())];
    let mut spec = Spec::random(rng, recipe);
    if rng.chance(1, 2) {
        spec.plan = *rng.pick(&[Plan::Zero, Plan::SamePos, Plan::SameTag, Plan::Palette(2, 2), Plan::Palette(1, 3), Plan::IdentOneTag]);
    }
    let mut t: TableC<E> = build(&spec);
    let mut d = Json::obj();
    d.set("collection", Json::s(format!("HashTable<{}>", E::NAME)));
    d.set("state", Json::s(spec.describe()));
    c.describe(d);
    let rounds = if c.is_miri() { 3 } else { 12 };
    for _ in 0..rounds {
        match rng.below(5) {
            0 => table_many::<E, 0>(c, &mut t, rng),
            1 => table_many::<E, 1>(c, &mut t, rng),
            2 => table_many::<E, 2>(c, &mut t, rng),
            3 => table_many::<E, 3>(c, &mut t, rng),
            _ => table_many::<E, 4>(c, &mut t, rng),
        }
        if crate::util::has_violation() {
            return;
        }
    }
}

/// Long request lists (N = 33..130): N distinct present keys, optionally with ONE key requested twice at chosen
/// positions (first/last, either side of 32 and 64, neighbours, far apart). With a duplicate the call must panic,
/// without one it must return N pairwise disjoint references in request order - whatever data structure the
/// duplicate check uses for long lists (bit masks, sorting, hashing) has its boundaries somewhere in here.
fn many_large<K: Elem, V: Elem, const N: usize>(c: &mut Ctx, rng: &mut Rng) {
    use crate::plan::PlanBH;
    let plan = *rng.pick(&[Plan::Mixed, Plan::Ident, Plan::IdentOneTag, Plan::Stride]);
    let mut d: MapDrv<K, V> = MapDrv::new(PlanBH::new(plan, rng.next()), (N as u32 + 40).min(K::ID_SPACE), *rng.pick(&[0usize, 28, 200]));
    let n = (N as u32 + 8).min(K::ID_SPACE);
    if (n as usize) < N {
        return;
    }
    for id in 0..n {
        let (k, kg) = d.mk_k(id);
        let (v, vv, vg) = d.mk_v(rng);
        d.map.insert(k, v);
        d.model.insert(id, kg, vv, vg);
    }
    // a random injection of positions into keys
    let mut ids: Vec<u32> = (0..n).collect();
    for i in (1..ids.len()).rev() {
        ids.swap(i, rng.usize_below(i + 1));
    }
    ids.truncate(N);
    let spots: [usize; 14] = [0, 1, 2, 30, 31, 32, 33, 62, 63, 64, 65, 66, N - 2, N - 1];
    let dup: Option<(usize, usize)> = if rng.chance(3, 4) {
        let a = *rng.pick(&spots) % N;
        let b = if rng.chance(1, 2) { *rng.pick(&spots) % N } else { rng.usize_below(N) };
        if a == b {
            None
        } else {
            Some((a.min(b), a.max(b)))
        }
    } else {
        None
    };
    if let Some((a, b)) = dup {
        ids[b] = ids[a];
    }
    let refs: Vec<KeyRef> = ids.iter().map(|id| KeyRef(*id)).collect();
    let ks: [&KeyRef; N] = std::array::from_fn(|i| &refs[i]);
    let what = format!("HashMap<{},{}>::get_many_mut with {} requests ({:?}), duplicate at positions {:?}", K::NAME, V::NAME, N, plan, dup);
    let mut desc = d.describe("C15 long request list");
    desc.set("N", Json::i(N));
    c.describe(desc);
    c.evaluations += 1;
    c.sig_parts(&[300 + N as u64, dup.map_or(0, |(a, b)| 1 + (a >= 32) as u64 + (a >= 64) as u64 + 4 * ((b >= 32) as u64 + (b >= 64) as u64))]);
    let kv = rng.chance(1, 2);
    let map = &mut d.map;
    let r = catch_expected(|| {
        let mut addrs = Vec::new();
        let mut keys_seen = Vec::new();
        if kv {
            for (i, x) in map.get_many_key_value_mut(ks).into_iter().enumerate() {
                if let Some((k, v)) = x {
                    keys_seen.push((i, k.id()));
                    addrs.push((v as *mut V as usize, std::mem::size_of::<V>()));
                }
            }
        } else {
            for v in map.get_many_mut(ks).into_iter().flatten() {
                addrs.push((v as *mut V as usize, std::mem::size_of::<V>()));
            }
        }
        (addrs, keys_seen)
    });
    match r {
        Err(msg) => {
            crate::check!(msg.contains("duplicate"), "{}: unexpected panic: {}", what, msg);
            crate::check!(dup.is_some(), "{}: panicked although all requested keys are distinct", what);
            c.bump("duplicate_panics_observed");
        }
        Ok((addrs, keys_seen)) => {
            no_overlap(&what, &addrs);
            crate::check!(dup.is_none(), "{}: returned {} references although one key was requested twice", what, addrs.len());
            crate::check!(addrs.len() == N, "{}: {} of {} present keys were found", what, addrs.len(), N);
            for (i, kid) in keys_seen {
                crate::check!(kid == ids[i], "{}: result {} belongs to key {}, requested was {}", what, i, kid, ids[i]);
            }
            c.bump("calls_returned");
            c.bump("long_lists_returned");
        }
    }
    d.validate(c, "get_many_mut (long list)");
}

/// The same through HashTable::get_many_mut (hashes + one equality closure over the request index).
fn table_many_large<E: Elem, const N: usize>(c: &mut Ctx, rng: &mut Rng) {
    use crate::plan::{plan_hash, PlanBH};
    use crate::states::Coll;
    let plan = *rng.pick(&[Plan::Mixed, Plan::Ident, Plan::IdentOneTag]);
    let bh = PlanBH::new(plan, rng.next());
    let n = N as u32 + 8;
    let mut t: TableC<E> = TableC::with_cap(bh, *rng.pick(&[0usize, 200]));
    for id in 0..n {
        t.put(id, 1);
    }
    let mut ids: Vec<u32> = (0..n).collect();
    for i in (1..ids.len()).rev() {
        ids.swap(i, rng.usize_below(i + 1));
    }
    ids.truncate(N);
    let spots: [usize; 12] = [0, 1, 31, 32, 33, 62, 63, 64, 65, 66, N - 2, N - 1];
    let dup: Option<(usize, usize)> = if rng.chance(3, 4) {
        let (a, b) = (*rng.pick(&spots) % N, rng.usize_below(N));
        if a == b {
            None
        } else {
            Some((a.min(b), a.max(b)))
        }
    } else {
        None
    };
    if let Some((a, b)) = dup {
        ids[b] = ids[a];
    }
    let hashes: [u64; N] = std::array::from_fn(|i| plan_hash(bh.plan, bh.salt, ids[i] as u64));
    let what = format!("HashTable<{}>::get_many_mut with {} requests ({:?}), duplicate at positions {:?}", E::NAME, N, plan, dup);
    c.evaluations += 1;
    c.sig_parts(&[400 + N as u64, dup.is_some() as u64]);
    let idv = ids.clone();
    let tab = &mut t.0;
    let r = catch_expected(move || {
        let mut addrs = Vec::new();
        for (i, x) in tab.get_many_mut(hashes, |i, e| e.id() == idv[i]).into_iter().enumerate() {
            if let Some(e) = x {
                addrs.push((i, e.id(), e as *mut E as usize));
            }
        }
        addrs
    });
    match r {
        Err(msg) => {
            crate::check!(msg.contains("duplicate"), "{}: unexpected panic: {}", what, msg);
            crate::check!(dup.is_some(), "{}: panicked although all requests are distinct", what);
            c.bump("duplicate_panics_observed");
        }
        Ok(addrs) => {
            let a2: Vec<(usize, usize)> = addrs.iter().map(|x| (x.2, std::mem::size_of::<E>())).collect();
            no_overlap(&what, &a2);
            crate::check!(dup.is_none(), "{}: returned although one element was requested twice", what);
            crate::check!(addrs.len() == N && addrs.iter().all(|(i, id, _)| *id == ids[*i]), "{}: results are not the requested elements in request order", what);
            c.bump("long_lists_returned");
        }
    }
    t.validate(&what);
}

pub fn run(c: &mut Ctx) {
    c.run_scenarios(|c, idx, rng| match crate::util::mix(idx) % 24 {
        23 => match rng.below(12) {
            0 => many_large::<P8, P8, 33>(c, rng),
            1 => many_large::<P8, T24, 34>(c, rng),
            2 => many_large::<T24, T24, 47>(c, rng),
            3 => many_large::<P8, P8, 64>(c, rng),
            4 => many_large::<P8, P8, 65>(c, rng),
            5 => many_large::<T24, P8, 66>(c, rng),
            6 => many_large::<P8, P8, 70>(c, rng),
            7 => many_large::<P8, P8, 130>(c, rng),
            8 => table_many_large::<P8, 33>(c, rng),
            9 => table_many_large::<T24, 65>(c, rng),
            10 => table_many_large::<P8, 66>(c, rng),
            _ => table_many_large::<P8, 129>(c, rng),
        },
        6..=22 => match crate::util::mix(idx) % 6 {
            0 => map_case::<P8, P8>(c, rng),
            1 => map_case::<T24, T24>(c, rng),
            2 => map_case::<B1, L200>(c, rng),
            3 => table_case::<T24>(c, rng),
            4 => table_case::<P8>(c, rng),
            _ => table_case::<L200>(c, rng),
        },
        5 => big_map_case::<P8, P8>(c, rng),
        4 => match rng.below(4) {
            0 => map_many_loose::<P8, P8, 3>(c, rng),
            1 => map_many_loose::<P8, T24, 16>(c, rng),
            2 => map_many_loose::<T24, T24, 17>(c, rng),
            _ => map_many_loose::<P8, P8, 20>(c, rng),
        },
        0 => map_case::<P8, P8>(c, rng),
        1 => map_case::<T24, T24>(c, rng),
        2 => map_case::<B1, L200>(c, rng),
        3 => table_case::<T24>(c, rng),
        4 => table_case::<P8>(c, rng),
        _ => table_case::<L200>(c, rng),
    });
}
