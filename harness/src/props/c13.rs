//! C13: insert/remove churn is reclaimed — bounded memory, guaranteed termination.

use crate::ckalloc;
use crate::ctx::Ctx;
use crate::for_coll;
use crate::fuse::{self, Class};
use crate::mapdrv::pick_plan;
use crate::plan::PlanBH;
use crate::states::Coll;
use crate::util::{Json, Rng};
use hashbrown::verif::capacity_to_buckets;
use std::collections::VecDeque;

pub const C13_COLLS: [&str; 9] = ["map:P8xP8", "map:T24xT24", "map:B1xB1", "set:P8", "set:B6", "table:P8", "table:T24", "map:L600xB1", "table:L4K"];
const PATTERNS: [&str; 9] = ["fifo", "lifo", "random", "window", "toggle", "cycles", "cycles", "batch", "batch"];
/// the monitor's bound: the table may hold at most this many times the buckets a fresh with_capacity(n) has
const FACTOR: usize = 8;

pub fn run(c: &mut Ctx) {
    c.run_scenarios(|c, idx, rng| {
        // rarely: a table whose element storage exceeds 16 MiB, churned long enough to saturate it several times
        if crate::util::mix(idx) % 211 == 3 && !c.is_miri() {
            c.extra.insert("large".into(), "1".into());
            for_coll!("map:L200xB1", scenario(c, idx, rng, "map:L200xB1"));
            c.extra.remove("large");
            return;
        }
        let name = C13_COLLS[(crate::util::mix(idx) % C13_COLLS.len() as u64) as usize];
        for_coll!(name, scenario(c, idx, rng, name));
    });
}

pub fn scenario<C: Coll>(c: &mut Ctx, _idx: u64, rng: &mut Rng, name: &str) {
    let large = c.xarg("large").is_some();
    let plan = if large { *rng.pick(&[crate::plan::Plan::Ident, crate::plan::Plan::Mixed]) } else { pick_plan(rng) };
    let bh = PlanBH::new(plan, rng.next());
    let space = C::id_space();
    let n = if large { 60_000 } else { (*rng.pick(&[1usize, 3, 7, 8, 14, 28, 100, 1000])).min(space as usize / 2).max(1) };
    let pattern = if large { "fifo" } else { PATTERNS[rng.usize_below(PATTERNS.len())] };
    // a batch step moves b keys; under plans where every probe walks past every element that is b x n comparisons
    let n = if pattern == "batch" && plan.is_clustering() { n.min(60) } else { n };
    let steps: usize = if large {
        if c.thorough() { 6_000_000 } else { 1_500_000 }
    } else if c.is_miri() {
        300
    } else if c.thorough() {
        200_000
    } else {
        *rng.pick(&[4_000usize, 20_000])
    };
    let steps = if pattern == "batch" && !large { if plan.is_clustering() { steps / 8 } else { steps / 2 } } else { steps };
    // the bound: 8x for small tables (minimum table sizes dominate), 4x (the bound derived from the growth policy) for large ones
    let factor = if n >= 1000 && pattern != "batch" { 4 } else { FACTOR };
    if large {
        c.bump("large_storage_scenarios");
    }
    let mut d = Json::obj();
    d.set("collection", Json::s(name));
    d.set("plan", Json::s(plan.name()));
    d.set("live_bound", Json::i(n));
    d.set("pattern", Json::s(pattern));
    d.set("steps", Json::i(steps));
    c.describe(d);
    c.sig_parts(&[crate::ctx::prop_salt(name), n as u64, crate::ctx::prop_salt(pattern), crate::ctx::prop_salt(&plan.name())]);

    let align = std::mem::align_of::<usize>(); // only the element size matters for the bucket count
    let fresh_buckets = capacity_to_buckets(n.max(1), C::elem_size(), align).unwrap_or(usize::MAX);
    let fresh: C = C::with_cap(bh, n.max(1));
    let fresh_bytes = fresh.alloc_size();
    drop(fresh);
    let what = format!("{} plan {} live<= {} pattern {}", name, plan.name(), n, pattern);

    let mut col: C = C::new_unallocated(bh, 0);
    let mut live: VecDeque<u32> = VecDeque::new();
    let mut next_id: u32 = 0;
    let fresh_key = |next_id: &mut u32| -> u32 {
        let id = *next_id % space;
        *next_id = next_id.wrapping_add(1);
        id
    };
    let mut peak_bytes = 0usize;
    let (mut draining, mut drain_order) = (false, 0u64);
    let mut allocs_seen = ckalloc::counters().allocs;
    for step in 0..steps {
        c.evaluations += 1;
        // choose between insert and remove according to the pattern, never exceeding n live elements
        let must_remove = live.len() >= n;
        // "cycles": fill up to the bound, then remove EVERYTHING (front, back or random order, drawn per cycle), and again:
        // the table is empty of elements but full of tombstones when the next fill starts
        if pattern == "cycles" {
            if live.is_empty() && draining {
                draining = false;
                drain_order = rng.below(3);
                c.bump("full_drain_cycles");
            } else if must_remove {
                draining = true;
            }
        }
        let do_remove = if pattern == "cycles" { draining } else { must_remove || (!live.is_empty() && rng.chance(2, 5)) };
        let cap_before = col.capacity();
        if pattern == "batch" {
            // batch churn: remove the b oldest keys, then insert b fresh ones through ONE Extend call (which reserves for the
            // batch while the table still has some growth budget left: neither "full" nor "empty")
            let b = (n / 4).max(1).min(64);
            while live.len() + b > n {
                let id = live.pop_front().unwrap();
                if !col.del(id) {
                    crate::viol!("{}: step {}: live key {} could not be removed", what, step, id);
                    return;
                }
            }
            let mut ids = Vec::with_capacity(b);
            while ids.len() < b {
                let id = fresh_key(&mut next_id);
                if !live.contains(&id) && !ids.contains(&id) {
                    ids.push(id);
                }
            }
            let exact = rng.chance(1, 2);
            col.extend_hinted(&ids, step as u16, if exact { b } else { 0 }, if exact { Some(b) } else { None });
            live.extend(ids);
            allocs_seen = ckalloc::counters().allocs;
            c.bump("batch_extends");
        } else if do_remove {
            let id = match pattern {
                "cycles" if drain_order == 0 => live.pop_front().unwrap(),
                "cycles" if drain_order == 1 => live.pop_back().unwrap(),
                "fifo" | "window" => live.pop_front().unwrap(),
                "lifo" | "toggle" => live.pop_back().unwrap(),
                _ => {
                    let i = rng.usize_below(live.len());
                    live.remove(i).unwrap()
                }
            };
            if !col.del(id) {
                crate::viol!("{}: step {}: live key {} could not be removed", what, step, id);
                return;
            }
        } else {
            let id = if pattern == "toggle" { (n as u32).min(space - 1) } else { fresh_key(&mut next_id) };
            if !large && live.contains(&id) {
                continue;
            }
            col.put(id, step as u16);
            live.push_back(id);
            let a = ckalloc::counters().allocs;
            if a == allocs_seen && col.capacity() > cap_before && cap_before == col.len() - 1 {
                c.bump("in_place_reclaims_observed");
            }
            if a != allocs_seen {
                c.bump("allocations_during_churn");
            }
            allocs_seen = a;
        }
        // ---- bounded memory, observed at every step ----
        let bytes = col.alloc_size();
        peak_bytes = peak_bytes.max(bytes);
        if fresh_bytes > 0 && bytes > factor * fresh_bytes {
            let dmp = col.dump();
            crate::viol!(
                "{}: step {}: the allocation is {} bytes ({} buckets) for at most {} live elements; a fresh with_capacity({}) takes {} bytes ({} buckets): growth is not bounded by {}x",
                what, step, bytes, dmp.bucket_mask + 1, n, n, fresh_bytes, fresh_buckets, factor
            );
            return;
        }
        let every = if large { 20_011 } else { 97 };
        if step % every == 0 || step + 1 == steps {
            let f = col.validate(&what);
            if f.buckets > factor * fresh_buckets {
                crate::viol!("{}: step {}: {} buckets for at most {} live elements (fresh table: {} buckets)", what, step, f.buckets, n, fresh_buckets);
                return;
            }
            if f.deleted > 0 {
                c.bump("samples_with_tombstones");
            }
            c.max("max_tombstones", f.deleted as u64);
            c.max("max_buckets", f.buckets as u64);
            // ---- termination: a lookup of an absent key makes a bounded number of Eq calls ----
            let absent = (next_id.wrapping_add(7 + step as u32)) % space;
            if large || !live.contains(&absent) {
                let e0 = fuse::count(Class::Eq);
                let found = col.has(absent);
                let calls = fuse::count(Class::Eq) - e0;
                crate::check!(!found, "{}: step {}: absent key {} reported present", what, step, absent);
                if bh.plan.is_lawful() && calls as usize > col.len() {
                    crate::viol!("{}: step {}: a lookup of an absent key made {} equality calls although only {} elements are stored (an element was compared more than once)", what, step, calls, col.len());
                }
                if calls as usize > f.buckets + 16 {
                    crate::viol!("{}: step {}: a lookup of an absent key made {} equality calls in a table of {} buckets", what, step, calls, f.buckets);
                }
                c.max("max_eq_calls_absent_lookup", calls);
            }
            if crate::util::has_violation() {
                return;
            }
        }
    }
    // every live key is still there
    for id in live.iter().take(200) {
        crate::check!(col.has(*id), "{}: live key {} lost during churn", what, id);
    }
    crate::check!(col.len() == live.len(), "{}: len() {} != live {}", what, col.len(), live.len());
    c.max("max_peak_over_fresh_x100", if fresh_bytes > 0 { (peak_bytes * 100 / fresh_bytes) as u64 } else { 0 });
}
