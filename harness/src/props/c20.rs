//! C20: serde round-trips contents; a lying size hint cannot force over-allocation.
//! A minimal in-harness Serializer (token list) and Deserializer (MapAccess/SeqAccess with a
//! programmable size_hint and error position) drive hashbrown's serde impls.

use crate::ckalloc::{self, CkAlloc};
use crate::ctx::Ctx;
use crate::elem::{self, Elem, B1, P8, T24, Z};
use crate::plan::PlanBH;
use crate::states::{build, Coll, MapC, SetC, Spec, RECIPES};
use crate::util::{Json, Rng};
use serde::de::{self, DeserializeSeed, Deserializer, MapAccess, SeqAccess, Visitor};
use serde::ser::{self, Serialize, SerializeMap, SerializeSeq, Serializer};
use std::fmt;

// ---------------------------------------------------------------------------------------------
// errors

#[derive(Debug, Clone, PartialEq)]
pub struct Er(pub String);
impl fmt::Display for Er {
    fn fmt(&self, f: &mut fmt::Formatter<'_>) -> fmt::Result {
        f.write_str(&self.0)
    }
}
impl std::error::Error for Er {}
impl ser::Error for Er {
    fn custom<T: fmt::Display>(m: T) -> Self {
        Er(m.to_string())
    }
}
impl de::Error for Er {
    fn custom<T: fmt::Display>(m: T) -> Self {
        Er(m.to_string())
    }
}

// ---------------------------------------------------------------------------------------------
// element <-> u64 token

fn pack(id: u32, gen: u16) -> u64 {
    ((id as u64) << 16) | gen as u64
}

macro_rules! serde_elem {
    ($($t:ident),*) => {$(
        impl Serialize for $t {
            fn serialize<S: Serializer>(&self, s: S) -> Result<S::Ok, S::Error> {
                self.check();
                s.serialize_u64(pack(self.id(), self.gen()))
            }
        }
        impl<'de> de::Deserialize<'de> for $t {
            fn deserialize<D: Deserializer<'de>>(d: D) -> Result<Self, D::Error> {
                struct V;
                impl<'de> Visitor<'de> for V {
                    type Value = $t;
                    fn expecting(&self, f: &mut fmt::Formatter<'_>) -> fmt::Result {
                        f.write_str("a packed element")
                    }
                    fn visit_u64<E: de::Error>(self, v: u64) -> Result<$t, E> {
                        Ok(<$t as Elem>::make((v >> 16) as u32, v as u16))
                    }
                }
                d.deserialize_u64(V)
            }
        }
    )*};
}
serde_elem!(T24, P8, B1, Z);

// ---------------------------------------------------------------------------------------------
// serializer: records tokens

#[derive(Default)]
pub struct Tokens {
    pub is_map: bool,
    pub declared_len: Option<usize>,
    pub items: Vec<u64>,
}
pub struct TokSer<'a>(pub &'a mut Tokens);
pub struct U64Ser<'a>(&'a mut Vec<u64>);

macro_rules! unsupported {
    ($($name:ident($($arg:ty),*) -> $ret:ty;)*) => {$(
        fn $name(self $(, _: $arg)*) -> Result<$ret, Er> { Err(Er(concat!("unsupported: ", stringify!($name)).to_string())) }
    )*};
}

impl<'a> Serializer for U64Ser<'a> {
    type Ok = ();
    type Error = Er;
    type SerializeSeq = ser::Impossible<(), Er>;
    type SerializeTuple = ser::Impossible<(), Er>;
    type SerializeTupleStruct = ser::Impossible<(), Er>;
    type SerializeTupleVariant = ser::Impossible<(), Er>;
    type SerializeMap = ser::Impossible<(), Er>;
    type SerializeStruct = ser::Impossible<(), Er>;
    type SerializeStructVariant = ser::Impossible<(), Er>;
    fn serialize_u64(self, v: u64) -> Result<(), Er> {
        self.0.push(v);
        Ok(())
    }
    fn serialize_unit(self) -> Result<(), Er> {
        self.0.push(u64::MAX);
        Ok(())
    }
    unsupported! {
        serialize_bool(bool) -> (); serialize_i8(i8) -> (); serialize_i16(i16) -> (); serialize_i32(i32) -> (); serialize_i64(i64) -> ();
        serialize_u8(u8) -> (); serialize_u16(u16) -> (); serialize_u32(u32) -> (); serialize_f32(f32) -> (); serialize_f64(f64) -> ();
        serialize_char(char) -> (); serialize_str(&str) -> (); serialize_bytes(&[u8]) -> (); serialize_none() -> ();
        serialize_unit_struct(&'static str) -> (); serialize_unit_variant(&'static str, u32, &'static str) -> ();
        serialize_seq(Option<usize>) -> Self::SerializeSeq; serialize_tuple(usize) -> Self::SerializeTuple;
        serialize_tuple_struct(&'static str, usize) -> Self::SerializeTupleStruct;
        serialize_tuple_variant(&'static str, u32, &'static str, usize) -> Self::SerializeTupleVariant;
        serialize_map(Option<usize>) -> Self::SerializeMap; serialize_struct(&'static str, usize) -> Self::SerializeStruct;
        serialize_struct_variant(&'static str, u32, &'static str, usize) -> Self::SerializeStructVariant;
    }
    fn serialize_some<T: ?Sized + Serialize>(self, _: &T) -> Result<(), Er> {
        Err(Er("unsupported: some".into()))
    }
    fn serialize_newtype_struct<T: ?Sized + Serialize>(self, _: &'static str, _: &T) -> Result<(), Er> {
        Err(Er("unsupported".into()))
    }
    fn serialize_newtype_variant<T: ?Sized + Serialize>(self, _: &'static str, _: u32, _: &'static str, _: &T) -> Result<(), Er> {
        Err(Er("unsupported".into()))
    }
}

impl<'a> Serializer for TokSer<'a> {
    type Ok = ();
    type Error = Er;
    type SerializeSeq = TokSer<'a>;
    type SerializeTuple = ser::Impossible<(), Er>;
    type SerializeTupleStruct = ser::Impossible<(), Er>;
    type SerializeTupleVariant = ser::Impossible<(), Er>;
    type SerializeMap = TokSer<'a>;
    type SerializeStruct = ser::Impossible<(), Er>;
    type SerializeStructVariant = ser::Impossible<(), Er>;
    fn serialize_seq(self, len: Option<usize>) -> Result<TokSer<'a>, Er> {
        self.0.is_map = false;
        self.0.declared_len = len;
        Ok(self)
    }
    fn serialize_map(self, len: Option<usize>) -> Result<TokSer<'a>, Er> {
        self.0.is_map = true;
        self.0.declared_len = len;
        Ok(self)
    }
    unsupported! {
        serialize_bool(bool) -> (); serialize_i8(i8) -> (); serialize_i16(i16) -> (); serialize_i32(i32) -> (); serialize_i64(i64) -> ();
        serialize_u8(u8) -> (); serialize_u16(u16) -> (); serialize_u32(u32) -> (); serialize_u64(u64) -> (); serialize_f32(f32) -> (); serialize_f64(f64) -> ();
        serialize_char(char) -> (); serialize_str(&str) -> (); serialize_bytes(&[u8]) -> (); serialize_none() -> (); serialize_unit() -> ();
        serialize_unit_struct(&'static str) -> (); serialize_unit_variant(&'static str, u32, &'static str) -> ();
        serialize_tuple(usize) -> Self::SerializeTuple;
        serialize_tuple_struct(&'static str, usize) -> Self::SerializeTupleStruct;
        serialize_tuple_variant(&'static str, u32, &'static str, usize) -> Self::SerializeTupleVariant;
        serialize_struct(&'static str, usize) -> Self::SerializeStruct;
        serialize_struct_variant(&'static str, u32, &'static str, usize) -> Self::SerializeStructVariant;
    }
    fn serialize_some<T: ?Sized + Serialize>(self, _: &T) -> Result<(), Er> {
        Err(Er("unsupported".into()))
    }
    fn serialize_newtype_struct<T: ?Sized + Serialize>(self, _: &'static str, _: &T) -> Result<(), Er> {
        Err(Er("unsupported".into()))
    }
    fn serialize_newtype_variant<T: ?Sized + Serialize>(self, _: &'static str, _: u32, _: &'static str, _: &T) -> Result<(), Er> {
        Err(Er("unsupported".into()))
    }
}
impl<'a> SerializeSeq for TokSer<'a> {
    type Ok = ();
    type Error = Er;
    fn serialize_element<T: ?Sized + Serialize>(&mut self, v: &T) -> Result<(), Er> {
        v.serialize(U64Ser(&mut self.0.items))
    }
    fn end(self) -> Result<(), Er> {
        Ok(())
    }
}
impl<'a> SerializeMap for TokSer<'a> {
    type Ok = ();
    type Error = Er;
    fn serialize_key<T: ?Sized + Serialize>(&mut self, k: &T) -> Result<(), Er> {
        k.serialize(U64Ser(&mut self.0.items))
    }
    fn serialize_value<T: ?Sized + Serialize>(&mut self, v: &T) -> Result<(), Er> {
        v.serialize(U64Ser(&mut self.0.items))
    }
    fn end(self) -> Result<(), Er> {
        Ok(())
    }
}

// ---------------------------------------------------------------------------------------------
// deserializer with programmable size hint and failure position

pub struct Probe {
    /// bytes held from the allocator when the first element was requested
    pub bytes_at_first: Option<usize>,
    pub max_request_at_first: usize,
}

pub struct De<'p> {
    pub items: Vec<u64>,
    /// as a sequence, every element is a (key, value) pair taken from two consecutive items
    pub pairs: bool,
    pub is_map: bool,
    pub hint: Option<usize>,
    /// fail when this element (entry index) is requested
    pub fail_at: Option<usize>,
    pub pos: usize,
    pub probe: &'p mut Probe,
}
struct U64De(u64);
impl<'de> Deserializer<'de> for U64De {
    type Error = Er;
    fn deserialize_any<V: Visitor<'de>>(self, v: V) -> Result<V::Value, Er> {
        if self.0 == u64::MAX {
            v.visit_unit()
        } else {
            v.visit_u64(self.0)
        }
    }
    serde::forward_to_deserialize_any! { bool i8 i16 i32 i64 i128 u8 u16 u32 u64 u128 f32 f64 char str string bytes byte_buf option unit unit_struct newtype_struct seq tuple tuple_struct map struct enum identifier ignored_any }
}
impl<'de, 'p> Deserializer<'de> for De<'p> {
    type Error = Er;
    fn deserialize_any<V: Visitor<'de>>(self, v: V) -> Result<V::Value, Er> {
        if self.is_map {
            v.visit_map(self)
        } else {
            v.visit_seq(self)
        }
    }
    serde::forward_to_deserialize_any! { bool i8 i16 i32 i64 i128 u8 u16 u32 u64 u128 f32 f64 char str string bytes byte_buf option unit unit_struct newtype_struct seq tuple tuple_struct map struct enum identifier ignored_any }
}
impl<'p> De<'p> {
    fn on_request(&mut self, index: usize) -> Result<(), Er> {
        if index == 0 && self.probe.bytes_at_first.is_none() {
            let c = ckalloc::counters();
            self.probe.bytes_at_first = Some(c.live_bytes);
            self.probe.max_request_at_first = c.max_request;
        }
        if self.fail_at == Some(index) {
            return Err(Er(format!("injected failure at element {}", index)));
        }
        Ok(())
    }
}
impl<'de, 'p> MapAccess<'de> for De<'p> {
    type Error = Er;
    fn next_key_seed<K: DeserializeSeed<'de>>(&mut self, seed: K) -> Result<Option<K::Value>, Er> {
        self.on_request(self.pos / 2)?;
        if self.pos >= self.items.len() {
            return Ok(None);
        }
        let v = self.items[self.pos];
        self.pos += 1;
        seed.deserialize(U64De(v)).map(Some)
    }
    fn next_value_seed<V: DeserializeSeed<'de>>(&mut self, seed: V) -> Result<V::Value, Er> {
        let v = self.items[self.pos];
        self.pos += 1;
        seed.deserialize(U64De(v))
    }
    fn size_hint(&self) -> Option<usize> {
        self.hint
    }
}
/// A two-element tuple (key, value) as a deserializer.
struct PairDe(u64, u64, u8);
impl<'de> Deserializer<'de> for PairDe {
    type Error = Er;
    fn deserialize_any<V: Visitor<'de>>(self, v: V) -> Result<V::Value, Er> {
        v.visit_seq(self)
    }
    serde::forward_to_deserialize_any! { bool i8 i16 i32 i64 i128 u8 u16 u32 u64 u128 f32 f64 char str string bytes byte_buf option unit unit_struct newtype_struct seq tuple tuple_struct map struct enum identifier ignored_any }
}
impl<'de> SeqAccess<'de> for PairDe {
    type Error = Er;
    fn next_element_seed<T: DeserializeSeed<'de>>(&mut self, seed: T) -> Result<Option<T::Value>, Er> {
        let v = match self.2 {
            0 => self.0,
            1 => self.1,
            _ => return Ok(None),
        };
        self.2 += 1;
        seed.deserialize(U64De(v)).map(Some)
    }
    fn size_hint(&self) -> Option<usize> {
        Some(2 - self.2.min(2) as usize)
    }
}

impl<'de, 'p> SeqAccess<'de> for De<'p> {
    type Error = Er;
    fn next_element_seed<T: DeserializeSeed<'de>>(&mut self, seed: T) -> Result<Option<T::Value>, Er> {
        if self.pairs {
            self.on_request(self.pos / 2)?;
            if self.pos + 1 >= self.items.len() {
                return Ok(None);
            }
            let (a, b) = (self.items[self.pos], self.items[self.pos + 1]);
            self.pos += 2;
            return seed.deserialize(PairDe(a, b, 0)).map(Some);
        }
        self.on_request(self.pos)?;
        if self.pos >= self.items.len() {
            return Ok(None);
        }
        let v = self.items[self.pos];
        self.pos += 1;
        seed.deserialize(U64De(v)).map(Some)
    }
    fn size_hint(&self) -> Option<usize> {
        self.hint
    }
}

// ---------------------------------------------------------------------------------------------

/// no single request to the process-global allocator during a deserialize call of a short input may exceed this
const GLOBAL_BOUND: usize = 8 << 20;

type M<K, V> = hashbrown::HashMap<K, V, PlanBH, CkAlloc>;
type S<T> = hashbrown::HashSet<T, PlanBH, CkAlloc>;

const HINTS: [Option<usize>; 12] = [
    None,
    Some(0),
    Some(1),
    Some(100),
    Some(4095),
    Some(4096),
    Some(4097),
    Some(65536),
    Some(1 << 32),
    Some(isize::MAX as usize),
    Some(usize::MAX / 2 + 1),
    Some(usize::MAX),
];

/// bytes a fresh with_capacity(2^16) of the same collection type holds (the loose bound of the statement's "small constant")
fn loose_bound_map<K: Elem, V: Elem>(bh: PlanBH) -> usize {
    let m: M<K, V> = M::with_capacity_and_hasher_in(1 << 16, bh, CkAlloc);
    m.allocation_size()
}
fn loose_bound_set<T: Elem>(bh: PlanBH) -> usize {
    let s: S<T> = S::with_capacity_and_hasher_in(1 << 16, bh, CkAlloc);
    s.allocation_size()
}

fn map_case<K: Elem + Serialize + for<'d> de::Deserialize<'d>, V: Elem + Serialize + for<'d> de::Deserialize<'d>>(c: &mut Ctx, rng: &mut Rng) {
    let rcp = RECIPES[rng.usize_below(RECIPES.len())];
    let spec = Spec::random(rng, rcp);
    let bh = PlanBH::new(spec.plan, spec.salt);
    crate::plan::set_current(bh.plan, bh.salt);
    let src: MapC<K, V> = build(&spec);
    let what = format!("HashMap<{},{}> [{}]", K::NAME, V::NAME, spec.describe());
    let mut d = Json::obj();
    d.set("case", Json::s(what.clone()));
    c.describe(d);
    // ---- round trip -------------------------------------------------------------------
    let mut toks = Tokens::default();
    if let Err(e) = src.0.serialize(TokSer(&mut toks)) {
        crate::viol!("{}: serialize failed: {}", what, e);
        return;
    }
    crate::check!(toks.is_map && toks.items.len() == 2 * src.len(), "{}: serialized {} tokens for {} entries", what, toks.items.len(), src.len());
    c.evaluations += 1;
    let bound = loose_bound_map::<K, V>(bh);
    let n_entries = src.len();
    for (hi, hint) in HINTS.iter().enumerate() {
        if hi > 1 && !rng.chance(1, 2) {
            continue;
        }
        let mut probe = Probe { bytes_at_first: None, max_request_at_first: 0 };
        let base = ckalloc::counters().live_bytes;
        ckalloc::reset_peak();
        let de = De { pairs: false, items: toks.items.clone(), is_map: true, hint: *hint, fail_at: None, pos: 0, probe: &mut probe };
        crate::util::galloc_watch_start();
        let r: Result<M<K, V>, Er> = de::Deserialize::deserialize(de);
        let gmax = crate::util::galloc_watch_stop();
        // nothing the call allocates from the process-global allocator (staging buffers, ...) may follow the claim either
        if gmax > GLOBAL_BOUND.max(64 * n_entries * std::mem::size_of::<(K, V)>()) {
            crate::viol!("{}: claimed size hint {:?}: the call made a single request of {} bytes to the global allocator for {} entries", what, hint, gmax, n_entries);
        }
        c.evaluations += 1;
        c.sig_parts(&[1, hi as u64, (n_entries == 0) as u64, crate::ctx::prop_salt(K::NAME)]);
        match r {
            Err(e) => crate::viol!("{}: deserialize(hint {:?}) failed: {}", what, hint, e),
            Ok(back) => {
                crate::check!(back == src.0 && src.0 == back, "{}: deserialize(serialize(x)) != x (hint {:?})", what, hint);
                let mut got: Vec<(u32, u16)> = back.iter().map(|(k, _)| (k.id(), k.gen())).collect();
                got.sort();
                crate::check!(got == src.contents(), "{}: round trip changed the contents (hint {:?})", what, hint);
                MapC(back).validate(&what);
            }
        }
        if let Some(b) = probe.bytes_at_first {
            let reserved = b.saturating_sub(base);
            if reserved > bound || probe.max_request_at_first > bound {
                crate::viol!(
                    "{}: claimed size hint {:?}: {} bytes were reserved (largest request {}) before any element was read; bound = fresh with_capacity(65536) = {} bytes",
                    what, hint, reserved, probe.max_request_at_first, bound
                );
            }
            c.max("max_bytes_reserved_before_first_element", reserved as u64);
        }
    }
    // ---- duplicates keep the last value ----------------------------------------------------
    {
        let nk = 1 + rng.below(12) as u32;
        let n = rng.below(40) as usize;
        let mut items = Vec::new();
        let mut last: std::collections::BTreeMap<u32, u32> = Default::default();
        for i in 0..n {
            let k = rng.below(nk as u64) as u32 % K::ID_SPACE;
            let v = (1000 + i as u32) % V::ID_SPACE;
            items.push(pack(k, 1));
            items.push(pack(v, 2));
            last.insert(k, v);
        }
        let mut probe = Probe { bytes_at_first: None, max_request_at_first: 0 };
        let de = De { pairs: false, items, is_map: true, hint: Some(rng.usize_below(n + 3)), fail_at: None, pos: 0, probe: &mut probe };
        let r: Result<M<K, V>, Er> = de::Deserialize::deserialize(de);
        c.evaluations += 1;
        c.sig_parts(&[2, nk as u64, (n > nk as usize) as u64]);
        match r {
            Err(e) => crate::viol!("{}: deserialize with repeated keys failed: {}", what, e),
            Ok(m) => {
                crate::check!(m.len() == last.len(), "{}: repeated keys: {} entries for {} distinct keys", what, m.len(), last.len());
                for (k, v) in &last {
                    let got = m.get(&crate::plan::KeyRef(*k)).map(|x| x.id());
                    if got != Some(*v) {
                        crate::viol!("{}: input repeats key {}; the last value is {} but the map holds {:?}", what, k, v, got);
                        break;
                    }
                }
                if n > last.len() {
                    c.bump("inputs_with_repeated_keys");
                }
            }
        }
    }
    // ---- failure injected at every element position ---------------------------------------------
    drop(src);
    let n = toks.items.len() / 2;
    let positions: Vec<usize> = if n <= 24 { (0..=n).collect() } else { vec![0, 1, n / 2, n - 1, n, rng.usize_below(n + 1)] };
    for at in positions {
        let live0 = elem::live_now();
        let blocks0 = ckalloc::counters().live_blocks;
        let mut probe = Probe { bytes_at_first: None, max_request_at_first: 0 };
        let de = De { pairs: false, items: toks.items.clone(), is_map: true, hint: Some(n), fail_at: Some(at), pos: 0, probe: &mut probe };
        let r: Result<M<K, V>, Er> = de::Deserialize::deserialize(de);
        c.evaluations += 1;
        c.sig_parts(&[3, (at == 0) as u64 + 2 * (at == n) as u64, crate::ctx::prop_salt(K::NAME)]);
        match r {
            Ok(m) => {
                crate::viol!("{}: an error injected at element {} of {} was swallowed (got a map of {})", what, at, n, m.len());
            }
            Err(e) => {
                crate::check!(e.0 == format!("injected failure at element {}", at), "{}: a different error came back: {}", what, e);
                c.bump("injected_errors_returned");
            }
        }
        let live1 = elem::live_now();
        let blocks1 = ckalloc::counters().live_blocks;
        crate::check!(live1 == live0, "{}: after the error at element {} {} already-built element(s) leaked", what, at, live1 as i64 - live0 as i64);
        crate::check!(blocks1 == blocks0, "{}: after the error at element {} a table block leaked", what, at);
    }
}

fn set_case<T: Elem + Serialize + for<'d> de::Deserialize<'d>>(c: &mut Ctx, rng: &mut Rng) {
    let rcp = RECIPES[rng.usize_below(RECIPES.len())];
    let spec = Spec::random(rng, rcp);
    let bh = PlanBH::new(spec.plan, spec.salt);
    crate::plan::set_current(bh.plan, bh.salt);
    let src: SetC<T> = build(&spec);
    let what = format!("HashSet<{}> [{}]", T::NAME, spec.describe());
    let mut d = Json::obj();
    d.set("case", Json::s(what.clone()));
    c.describe(d);
    let mut toks = Tokens::default();
    if let Err(e) = src.0.serialize(TokSer(&mut toks)) {
        crate::viol!("{}: serialize failed: {}", what, e);
        return;
    }
    crate::check!(!toks.is_map && toks.items.len() == src.len(), "{}: serialized {} tokens for {} elements", what, toks.items.len(), src.len());
    let bound = loose_bound_set::<T>(bh);
    for (hi, hint) in HINTS.iter().enumerate() {
        if hi > 1 && !rng.chance(1, 2) {
            continue;
        }
        for in_place in [false, true] {
            let mut probe = Probe { bytes_at_first: None, max_request_at_first: 0 };
            let mut place: S<T> = S::with_hasher_in(bh, CkAlloc);
            if in_place {
                // a place that already holds something (which must be replaced)
                for i in 0..rng.below(6) as u32 {
                    place.insert(T::make((50 + i) % T::ID_SPACE, 3));
                }
            }
            let base = ckalloc::counters().live_bytes;
            ckalloc::reset_peak();
            let de = De { pairs: false, items: toks.items.clone(), is_map: false, hint: *hint, fail_at: None, pos: 0, probe: &mut probe };
            c.evaluations += 1;
            c.sig_parts(&[4, hi as u64, in_place as u64, crate::ctx::prop_salt(T::NAME)]);
            crate::util::galloc_watch_start();
            let r: Result<S<T>, Er> = if in_place {
                de::Deserialize::deserialize_in_place(de, &mut place).map(|_| place)
            } else {
                drop(place);
                de::Deserialize::deserialize(de)
            };
            let gmax = crate::util::galloc_watch_stop();
            if gmax > GLOBAL_BOUND.max(64 * src.len() * std::mem::size_of::<T>().max(1)) {
                crate::viol!("{}: claimed size hint {:?} (in_place {}): the call made a single request of {} bytes to the global allocator for {} elements", what, hint, in_place, gmax, src.len());
            }
            match r {
                Err(e) => crate::viol!("{}: deserialize(hint {:?}, in_place {}) failed: {}", what, hint, in_place, e),
                Ok(back) => {
                    crate::check!(back == src.0 && src.0 == back, "{}: deserialize(serialize(x)) != x (hint {:?}, in_place {})", what, hint, in_place);
                    SetC(back).validate(&what);
                }
            }
            if let Some(b) = probe.bytes_at_first {
                let reserved = b.saturating_sub(base);
                if reserved > bound || probe.max_request_at_first > bound {
                    crate::viol!(
                        "{}: claimed size hint {:?} (in_place {}): {} bytes were reserved (largest request {}) before any element was read; bound = fresh with_capacity(65536) = {} bytes",
                        what, hint, in_place, reserved, probe.max_request_at_first, bound
                    );
                }
                c.max("max_bytes_reserved_before_first_element", reserved as u64);
            }
        }
    }
    // input that repeats elements: the set holds each once
    {
        let nk = 1 + rng.below(10) as u32;
        let n = rng.below(30) as usize;
        let items: Vec<u64> = (0..n).map(|i| pack(rng.below(nk as u64) as u32 % T::ID_SPACE, i as u16)).collect();
        let distinct: std::collections::BTreeSet<u32> = items.iter().map(|v| (*v >> 16) as u32).collect();
        let mut probe = Probe { bytes_at_first: None, max_request_at_first: 0 };
        let de = De { pairs: false, items, is_map: false, hint: Some(n), fail_at: None, pos: 0, probe: &mut probe };
        let r: Result<S<T>, Er> = de::Deserialize::deserialize(de);
        c.evaluations += 1;
        c.sig_parts(&[6, nk as u64, (n > nk as usize) as u64]);
        match r {
            Err(e) => crate::viol!("{}: deserialize with repeated elements failed: {}", what, e),
            Ok(set) => {
                let got: std::collections::BTreeSet<u32> = set.iter().map(|x| x.id()).collect();
                crate::check!(set.len() == distinct.len() && got == distinct, "{}: input repeats elements: the set reports {} elements ({} yielded distinct), {} distinct were given", what, set.len(), got.len(), distinct.len());
                crate::check!(set.iter().count() == set.len(), "{}: set from repeated input yields {} for len {}", what, set.iter().count(), set.len());
                SetC(set).validate(&what);
                if n > distinct.len() {
                    c.bump("inputs_with_repeated_keys");
                }
            }
        }
    }
    // failures
    drop(src);
    let n = toks.items.len();
    let positions: Vec<usize> = if n <= 24 { (0..=n).collect() } else { vec![0, 1, n / 2, n - 1, n] };
    for at in positions {
        let live0 = elem::live_now();
        let mut probe = Probe { bytes_at_first: None, max_request_at_first: 0 };
        let de = De { pairs: false, items: toks.items.clone(), is_map: false, hint: None, fail_at: Some(at), pos: 0, probe: &mut probe };
        let r: Result<S<T>, Er> = de::Deserialize::deserialize(de);
        c.evaluations += 1;
        c.sig_parts(&[5, (at == 0) as u64 + 2 * (at == n) as u64]);
        match r {
            Ok(_) => crate::viol!("{}: an error injected at element {} was swallowed", what, at),
            Err(e) => {
                crate::check!(e.0 == format!("injected failure at element {}", at), "{}: a different error came back: {}", what, e);
                c.bump("injected_errors_returned");
            }
        }
        crate::check!(elem::live_now() == live0, "{}: after the error at element {} elements leaked", what, at);
    }
}

/// Inputs long enough to exhaust the cautious pre-reservation (> 7168 elements) under lying hints: the
/// claimed length must not drive the allocation at any point of the call, not only before the first element.
fn long_input_case(c: &mut Ctx, rng: &mut Rng) {
    let bh = PlanBH::new(crate::plan::Plan::Mixed, rng.next());
    crate::plan::set_current(bh.plan, bh.salt);
    let n = *rng.pick(&[7200usize, 7500, 9000]);
    let hint = *rng.pick(&[Some(1usize << 22), Some(usize::MAX), Some(usize::MAX / 2), Some(n), None]);
    let items: Vec<u64> = (0..n as u32).flat_map(|i| [pack(i, 1), pack(i % 1000, 2)]).collect();
    let fresh: M<P8, P8> = M::with_capacity_and_hasher_in(n, bh, CkAlloc);
    let fresh_bytes = fresh.allocation_size();
    drop(fresh);
    let mut d = Json::obj();
    d.set("case", Json::s(format!("HashMap<P8,P8> from {} entries, claimed hint {:?}", n, hint)));
    c.describe(d);
    c.evaluations += 1;
    c.sig_parts(&[7, n as u64, hint.map_or(0, |h| (h as u64).min(1 << 40))]);
    ckalloc::reset_peak();
    let mut probe = Probe { bytes_at_first: None, max_request_at_first: 0 };
    let de = De { pairs: false, items, is_map: true, hint, fail_at: None, pos: 0, probe: &mut probe };
    let r = crate::util::catch_expected(|| {
        let m: Result<M<P8, P8>, Er> = de::Deserialize::deserialize(de);
        m
    });
    match r {
        Err(msg) => crate::viol!("deserializing {} entries with claimed hint {:?} panicked: {}", n, hint, msg),
        Ok(Err(e)) => crate::viol!("deserializing {} entries with claimed hint {:?} failed: {}", n, hint, e),
        Ok(Ok(m)) => {
            crate::check!(m.len() == n, "deserialized {} of {} entries", m.len(), n);
            let cnt = ckalloc::counters();
            // growth by doubling may overshoot a fresh table by one doubling (2x); 4x is the alarm threshold
            if m.allocation_size() > 4 * fresh_bytes || cnt.max_request > 4 * fresh_bytes {
                crate::viol!(
                    "claimed size hint {:?} over {} real entries: final allocation {} bytes, largest request {} bytes; a fresh with_capacity({}) takes {} bytes",
                    hint, n, m.allocation_size(), cnt.max_request, n, fresh_bytes
                );
            }
            c.bump("long_inputs_checked");
        }
    }
}

/// Inputs of the "wrong" shape for the visitor: a map offered as a sequence of (key, value) pairs (what self-describing
/// formats do when a map was written as a list), a set offered as a map. Whether such input is accepted or refused
/// is not stated; what is stated is that no claimed length may drive the allocation, so every visitor entry point a
/// deserializer can reach is held to the same bound (and to "no panic").
fn wrong_shape_case(c: &mut Ctx, rng: &mut Rng) {
    let bh = PlanBH::new(crate::plan::Plan::Mixed, rng.next());
    crate::plan::set_current(bh.plan, bh.salt);
    let n = *rng.pick(&[0usize, 1, 3, 40]);
    let items: Vec<u64> = (0..n as u32).flat_map(|i| [pack(i, 1), pack(i + 500, 2)]).collect();
    let bound_m = loose_bound_map::<P8, P8>(bh);
    let bound_s = loose_bound_set::<P8>(bh);
    let mut d = Json::obj();
    d.set("case", Json::s(format!("wrong-shape inputs with {} entries", n)));
    c.describe(d);
    for (hi, hint) in HINTS.iter().enumerate() {
        for shape in 0..3 {
            c.evaluations += 1;
            c.sig_parts(&[8, hi as u64, shape, (n == 0) as u64]);
            let mut probe = Probe { bytes_at_first: None, max_request_at_first: 0 };
            let base = ckalloc::counters().live_bytes;
            ckalloc::reset_peak();
            let what = ["HashMap offered a sequence of pairs", "HashSet offered a map", "HashSet (in place) offered a map"][shape as usize];
            let its = items.clone();
            let pr = &mut probe;
            crate::util::galloc_watch_start();
            let r = crate::util::catch_expected(move || match shape {
                0 => {
                    let de = De { pairs: true, items: its, is_map: false, hint: *hint, fail_at: None, pos: 0, probe: pr };
                    let m: Result<M<P8, P8>, Er> = de::Deserialize::deserialize(de);
                    m.map(|m| (m.len(), m.allocation_size())).map_err(|e| e.0)
                }
                1 => {
                    let de = De { pairs: false, items: its, is_map: true, hint: *hint, fail_at: None, pos: 0, probe: pr };
                    let m: Result<S<P8>, Er> = de::Deserialize::deserialize(de);
                    m.map(|m| (m.len(), m.allocation_size())).map_err(|e| e.0)
                }
                _ => {
                    let de = De { pairs: false, items: its, is_map: true, hint: *hint, fail_at: None, pos: 0, probe: pr };
                    let mut place: S<P8> = S::with_hasher_in(bh, CkAlloc);
                    let r = de::Deserialize::deserialize_in_place(de, &mut place);
                    r.map(|_| (place.len(), place.allocation_size())).map_err(|e: Er| e.0)
                }
            });
            let gmax = crate::util::galloc_watch_stop();
            crate::check!(gmax <= GLOBAL_BOUND, "{} with claimed length {:?}: a single request of {} bytes went to the global allocator", what, hint, gmax);
            let bound = if shape == 0 { bound_m } else { bound_s };
            let cnt = ckalloc::counters();
            match r {
                Err(msg) => crate::viol!("{} with claimed length {:?}: panicked: {}", what, hint, msg),
                Ok(Err(_refused)) => c.bump("wrong_shape_inputs_refused"),
                Ok(Ok((len, size))) => {
                    crate::check!(len <= n, "{}: produced {} elements from {} entries", what, len, n);
                    crate::check!(size <= bound, "{} with claimed length {:?}: the result holds {} bytes for {} elements (bound {})", what, hint, size, len, bound);
                    c.bump("wrong_shape_inputs_accepted");
                }
            }
            let reserved = probe.bytes_at_first.map_or(0, |b| b.saturating_sub(base));
            if reserved > bound || cnt.max_request > bound {
                crate::viol!("{} with claimed length {:?}: {} bytes reserved before the first element, largest request {} bytes (bound = fresh with_capacity(65536) = {} bytes)", what, hint, reserved, cnt.max_request, bound);
            }
        }
    }
}

/// One place reused for several deserialize_in_place calls with lying hints: the allocation must not compound.
fn reused_place_case(c: &mut Ctx, rng: &mut Rng) {
    let bh = PlanBH::new(crate::plan::Plan::Mixed, rng.next());
    crate::plan::set_current(bh.plan, bh.salt);
    let pre = *rng.pick(&[0usize, 100, 5000, 9000]);
    let mut place: S<P8> = S::with_capacity_and_hasher_in(pre, bh, CkAlloc);
    for i in 0..(pre as u32).min(6000) {
        place.insert(P8::make(i, 0));
    }
    let mut d = Json::obj();
    d.set("case", Json::s(format!("HashSet<P8> place pre-sized for {} reused for 8 deserialize_in_place calls with lying hints", pre)));
    c.describe(d);
    let bound = loose_bound_set::<P8>(bh).max(place.allocation_size());
    for round in 0..8 {
        let n = rng.below(6) as u32;
        let items: Vec<u64> = (0..n).map(|i| pack(i + 10 * round, 0)).collect();
        let hint = *rng.pick(&[Some(usize::MAX), Some(1usize << 40), Some(1usize << 20), None]);
        let cap_before = place.capacity();
        let a0 = ckalloc::counters().allocs;
        let mut probe = Probe { bytes_at_first: None, max_request_at_first: 0 };
        let de = De { pairs: false, items, is_map: false, hint, fail_at: None, pos: 0, probe: &mut probe };
        c.evaluations += 1;
        c.sig_parts(&[8, pre as u64, round as u64]);
        let r: Result<(), Er> = de::Deserialize::deserialize_in_place(de, &mut place);
        crate::check!(r.is_ok(), "deserialize_in_place round {} failed: {:?}", round, r);
        crate::check!(place.len() == n as usize, "deserialize_in_place round {}: {} elements, expected {}", round, place.len(), n);
        let allocs = ckalloc::counters().allocs - a0;
        if cap_before >= 4096 + n as usize {
            crate::check!(allocs == 0, "deserialize_in_place into a place of capacity {} allocated {} time(s) for {} elements (claimed hint {:?})", cap_before, allocs, n, hint);
        }
        if place.allocation_size() > bound {
            crate::viol!(
                "deserialize_in_place round {}: the reused place grew to {} bytes (capacity {} -> {}) under claimed hint {:?}; bound {} bytes",
                round, place.allocation_size(), cap_before, place.capacity(), hint, bound
            );
            return;
        }
    }
    c.bump("reused_places_checked");
}

pub fn run(c: &mut Ctx) {
    // this property rebuilds every state many times: very large sparse states are capped at 2^22 buckets
    crate::states::set_huge_max_lg(22);
    c.run_scenarios(|c, idx, rng| match crate::util::mix(idx) % 9 {
        7 => {
            if crate::util::mix(idx) % 5 == 0 && !c.is_miri() {
                long_input_case(c, rng)
            } else {
                reused_place_case(c, rng)
            }
        }
        8 if rng.chance(1, 2) => wrong_shape_case(c, rng),
        8 => reused_place_case(c, rng),
        0 => map_case::<T24, T24>(c, rng),
        1 => map_case::<P8, P8>(c, rng),
        2 => map_case::<B1, T24>(c, rng),
        3 => set_case::<T24>(c, rng),
        4 => set_case::<B1>(c, rng),
        5 => set_case::<Z>(c, rng),
        _ => map_case::<Z, Z>(c, rng),
    });
}
