//! C14: entry-style APIs agree with plain lookup/insert/remove, even at full load.
//! The HashMap driver's entry operations (entry, entry_ref, raw_entry(_mut), rustc_entry) are run in
//! chains of at most 3 calls directly on freshly built target states (capacity()==len(), tombstone-
//! saturated, unallocated, small), each call compared with the model and followed by I1-I5.

use crate::ctx::Ctx;
use crate::elem::Elem;
use crate::for_pair;
use crate::mapdrv::{pick_plan, NOPS};
use crate::plan::Plan;
use crate::props::c04::{build_state, Recipe, StateSpec};
use crate::util::{Json, Rng};

pub const C14_PAIRS: [&str; 8] = ["P8xP8", "T24xT24", "B1xB1", "L200xB1", "A64xP8", "B3xB1", "L600xB1", "P8xL600"];
const STATES: [Recipe; 10] = [Recipe::Layout, Recipe::Layout, Recipe::Full, Recipe::Saturated, Recipe::SaturatedRandom, Recipe::SaturatedRandom, Recipe::Fresh, Recipe::Small, Recipe::Tombstoned, Recipe::History];
/// only the entry-style operations (and a little lookup) are drawn
const W: [u32; NOPS] = [0, 2, 0, 1, 1, 0, 0, 3, 30, 22, 0, 0, 0, 0, 0, 0, 0, 0, 0, 30, 22, 0, 0, 6, 24];

pub fn run(c: &mut Ctx) {
    // this property rebuilds every state many times: very large sparse states are capped at 2^20 buckets
    crate::states::set_huge_max_lg(20);
    c.run_scenarios(|c, idx, rng| {
        let pair = C14_PAIRS[(crate::util::mix(idx) % C14_PAIRS.len() as u64) as usize];
        for_pair!(pair, scenario(c, idx, rng));
    });
}

pub fn scenario<K: Elem, V: Elem>(c: &mut Ctx, idx: u64, rng: &mut Rng) {
    let recipe = STATES[((crate::util::mix(idx) / C14_PAIRS.len() as u64) % STATES.len() as u64) as usize];
    let plan = match recipe {
        Recipe::Layout => *rng.pick(&[Plan::Ident, Plan::Ident, Plan::IdentOneTag]),
        Recipe::Saturated | Recipe::SaturatedRandom | Recipe::Tombstoned if rng.chance(3, 4) => *rng.pick(&[Plan::Ident, Plan::IdentOneTag, Plan::Zero, Plan::SamePos, Plan::Palette(1, 3), Plan::Palette(3, 1), Plan::Palette(4, 4), Plan::Stride, Plan::Tail, Plan::Max]),
        _ => pick_plan(rng),
    };
    let spec = StateSpec { plan, salt: rng.next(), recipe, seed: rng.next(), size: rng.below(1000) as u32 };
    let mut desc = Json::obj();
    desc.set("key", Json::s(K::NAME));
    desc.set("value", Json::s(V::NAME));
    desc.set("plan", Json::s(plan.name()));
    desc.set("recipe", Json::s(format!("{:?}", recipe)));
    c.describe(desc);
    let rounds = if c.is_miri() { 2 } else { 10 };
    for _ in 0..rounds {
        let mut d = build_state::<K, V>(&spec, c);
        d.validate_every = 1;
        // keys: mostly the ones around the stored range, so that present and absent keys both occur
        d.universe = if matches!(recipe, Recipe::Layout) { 512u32.min(K::ID_SPACE) } else { ((d.model.len() as u32) * 2 + 6).min(K::ID_SPACE) };
        let dump = d.map.verif_dump();
        let at_full = d.map.capacity() == d.map.len();
        if at_full && d.map.len() > 0 {
            c.bump("chains_started_at_capacity_eq_len");
        }
        if dump.is_empty_singleton {
            c.bump("chains_started_unallocated");
        }
        if dump.growth_left == 0 && dump.ctrl.iter().take(dump.bucket_mask + 1).any(|b| *b == 0x80) {
            c.bump("chains_started_tombstone_saturated");
        }
        d.validate(c, "C14 start");
        let chain = 1 + rng.below(3);
        for _ in 0..chain {
            if !d.step(c, rng, &W) {
                return;
            }
        }
        drop(d);
    }
}
