use crate::ctx::Ctx;

pub mod c01;
pub mod c02;
pub mod c03;
pub mod c04;
pub mod c05;
pub mod c06;
pub mod c07;
pub mod c08;
pub mod c09;
pub mod c10;
pub mod c11;
pub mod c12;
pub mod c13;
pub mod c14;
pub mod c15;
pub mod c16;
pub mod c17;
pub mod c18;
pub mod c19;
pub mod c20;

/// Instantiates a generic scenario function for a named (key, value) pair of the element menu.
#[macro_export]
macro_rules! for_pair {
    ($name:expr, $f:ident ( $($arg:expr),* )) => {{
        use $crate::elem::*;
        match $name {
            "P8xP8" => $f::<P8, P8>($($arg),*),
            "T24xT24" => $f::<T24, T24>($($arg),*),
            "B1xB1" => $f::<B1, B1>($($arg),*),
            "B1xZ" => $f::<B1, Z>($($arg),*),
            "B2xZ" => $f::<B2, Z>($($arg),*),
            "B3xZ" => $f::<B3, Z>($($arg),*),
            "B3xB1" => $f::<B3, B1>($($arg),*),
            "B6xZ" => $f::<B6, Z>($($arg),*),
            "P8xT24" => $f::<P8, T24>($($arg),*),
            "T24xZ" => $f::<T24, Z>($($arg),*),
            "L200xB1" => $f::<L200, B1>($($arg),*),
            "A64xP8" => $f::<A64, P8>($($arg),*),
            "P8xA64" => $f::<P8, A64>($($arg),*),
            "ZxT24" => $f::<Z, T24>($($arg),*),
            "B1xL200" => $f::<B1, L200>($($arg),*),
            "B1xT24" => $f::<B1, T24>($($arg),*),
            "L600xB1" => $f::<L600, B1>($($arg),*),
            "P8xL600" => $f::<P8, L600>($($arg),*),
            "B1xL4K" => $f::<B1, L4K>($($arg),*),
            other => panic!("unknown element pair {}", other),
        }
    }};
}

pub const PAIRS: [&str; 17] = [
    "P8xP8", "T24xT24", "B1xB1", "B1xZ", "B2xZ", "B3xZ", "B3xB1", "B6xZ", "P8xT24", "T24xZ", "L200xB1", "A64xP8", "P8xA64", "ZxT24", "L600xB1", "P8xL600", "B1xL4K",
];

/// Instantiates a generic scenario function for a named element type.
#[macro_export]
macro_rules! for_elem {
    ($name:expr, $f:ident ( $($arg:expr),* )) => {{
        use $crate::elem::*;
        match $name {
            "Z" => $f::<Z>($($arg),*),
            "Z8" => $f::<Z8>($($arg),*),
            "B1" => $f::<B1>($($arg),*),
            "B2" => $f::<B2>($($arg),*),
            "B3" => $f::<B3>($($arg),*),
            "B6" => $f::<B6>($($arg),*),
            "P8" => $f::<P8>($($arg),*),
            "T24" => $f::<T24>($($arg),*),
            "L200" => $f::<L200>($($arg),*),
            "A64" => $f::<A64>($($arg),*),
            "L600" => $f::<L600>($($arg),*),
            "L4K" => $f::<L4K>($($arg),*),
            other => panic!("unknown element {}", other),
        }
    }};
}

pub const ELEMS: [&str; 12] = ["Z", "Z8", "B1", "B2", "B3", "B6", "P8", "T24", "L200", "A64", "L600", "L4K"];

pub fn dispatch(c: &mut Ctx) -> bool {
    match c.prop.as_str() {
        "C01" => c01::run(c),
        "C02" => c02::run(c),
        "C03" => c03::run(c),
        "C04" => c04::run(c),
        "C05" => c05::run(c),
        "C06" => c06::run(c),
        "C07" => c07::run(c),
        "C08" => c08::run(c),
        "C09" => c09::run(c),
        "C10" => c10::run(c),
        "C11" => c11::run(c),
        "C12" => c12::run(c),
        "C13" => c13::run(c),
        "C14" => c14::run(c),
        "C15" => c15::run(c),
        "C16" => c16::run(c),
        "C17" => c17::run(c),
        "C18" => c18::run(c),
        "C19" => c19::run(c),
        "C20" => c20::run(c),
        _ => return false,
    }
    true
}
