//! C09: every iterator yields each element exactly once with exact length reporting.

use crate::ctx::Ctx;
use crate::elem::{Elem, B1, L200, P8, T24, Z};
use crate::states::{build, Coll, MapC, SetC, Spec, TableC, RECIPES};
use crate::util::{Json, Rng};

/// Drives one iterator: `p` calls of next() with exact-length checks at every step, then by `mode`:
/// 0 next() to exhaustion (+3 extra calls), 1 fold the rest, 2 clone and run both independently,
/// 3 for_each the rest. Returns the multiset of ids yielded.
fn drive<I, T>(
    what: &str,
    mut it: I,
    idf: &dyn Fn(&T) -> (u32, u16),
    total: usize,
    p: usize,
    mode: u8,
    cloner: Option<&dyn Fn(&I) -> I>,
) -> (Vec<(u32, u16)>, bool)
where
    I: ExactSizeIterator<Item = T>,
{
    let (out, complete) = drive_inner(what, it, idf, total, p, mode, cloner);
    (out, complete)
}

/// Number of ways `drive` can finish an iterator (modes 0..MODES).
pub const MODES: u8 = 9;

fn drive_inner<I, T>(
    what: &str,
    mut it: I,
    idf: &dyn Fn(&T) -> (u32, u16),
    total: usize,
    p: usize,
    mode: u8,
    cloner: Option<&dyn Fn(&I) -> I>,
) -> (Vec<(u32, u16)>, bool)
where
    I: ExactSizeIterator<Item = T>,
{
    let mut out = Vec::with_capacity(total);
    let mut remaining = total;
    let exact = |it: &I, r: usize, at: usize| {
        let sh = it.size_hint();
        if sh != (r, Some(r)) || it.len() != r {
            crate::viol!("{}: after {} of {} elements size_hint() = {:?}, len() = {}, true remaining = {}", what, at, total, sh, it.len(), r);
        }
    };
    exact(&it, remaining, 0);
    for step in 0..p.min(total) {
        match it.next() {
            Some(x) => {
                out.push(idf(&x));
                remaining -= 1;
                exact(&it, remaining, step + 1);
            }
            None => {
                crate::viol!("{}: next() returned None after {} of {} elements", what, step, total);
                return (out, true);
            }
        }
    }
    match mode {
        1 => {
            let before = out.len();
            out = it.fold(out, |mut acc, x| {
                acc.push(idf(&x));
                acc
            });
            if out.len() - before != remaining {
                crate::viol!("{}: fold() from prefix {} visited {} elements, {} remain", what, p.min(total), out.len() - before, remaining);
            }
        }
        3 => {
            let mut rest = Vec::new();
            it.for_each(|x| rest.push(idf(&x)));
            if rest.len() != remaining {
                crate::viol!("{}: for_each() from prefix {} visited {} elements, {} remain", what, p.min(total), rest.len(), remaining);
            }
            out.extend(rest);
        }
        2 if cloner.is_some() => {
            let mut cl = cloner.unwrap()(&it);
            exact(&cl, remaining, p);
            // advance the original by one more: the clone must not notice
            let mut orig_rest = Vec::new();
            if let Some(x) = it.next() {
                orig_rest.push(idf(&x));
            }
            exact(&cl, remaining, p);
            let mut clone_rest = Vec::new();
            while let Some(x) = cl.next() {
                clone_rest.push(idf(&x));
            }
            while let Some(x) = it.next() {
                orig_rest.push(idf(&x));
            }
            if clone_rest != orig_rest {
                crate::viol!("{}: a clone taken after {} elements does not continue from the same position ({} vs {} elements, or a different order)", what, p.min(total), clone_rest.len(), orig_rest.len());
            }
            out.extend(orig_rest);
            for _ in 0..3 {
                crate::check!(cl.next().is_none() && it.next().is_none(), "{}: Some after exhaustion (clone mode)", what);
            }
        }
        // Modes 4..: the provided Iterator methods an implementation may specialise. Each is held to its definition
        // in terms of next(); what they skip is not observable, so these return a sub-multiset (complete = false).
        4 => {
            // nth(k) == k x next() discarded, then next()
            let mut round = p;
            loop {
                let k = [0usize, 1, 2, 5, 0, 3, 17, 1][round % 8];
                round += 1;
                match it.nth(k) {
                    Some(x) => {
                        if remaining <= k {
                            crate::viol!("{}: nth({}) returned an element with only {} remaining", what, k, remaining);
                            return (out, false);
                        }
                        out.push(idf(&x));
                        remaining -= k + 1;
                        exact(&it, remaining, total - remaining);
                    }
                    None => {
                        if remaining > k {
                            crate::viol!("{}: nth({}) returned None with {} elements remaining (after a prefix of {})", what, k, remaining, total - remaining);
                        }
                        exact(&it, 0, total);
                        crate::check!(it.next().is_none(), "{}: Some after nth() returned None", what);
                        break;
                    }
                }
            }
            // an iterator exhausted by an over-long nth() is empty for the fold family too
            let extra = it.fold(0usize, |a, _| a + 1);
            crate::check!(extra == 0, "{}: fold() visited {} elements of an iterator that nth() had exhausted (next() yields none)", what, extra);
            return (out, false);
        }
        5 => {
            let n = it.count();
            crate::check!(n == remaining, "{}: count() from prefix {} = {}, {} remain", what, p.min(total), n, remaining);
            return (out, false);
        }
        6 => {
            match it.last() {
                Some(x) => {
                    crate::check!(remaining > 0, "{}: last() returned an element of an exhausted iterator", what);
                    out.push(idf(&x));
                }
                None => crate::check!(remaining == 0, "{}: last() returned None with {} elements remaining", what, remaining),
            }
            return (out, false);
        }
        7 => {
            // skip(k) and step_by(s) are built on nth()
            let k = [1usize, 2, 3, 16, 7][p % 5];
            let s = [2usize, 3, 1, 5][p % 4];
            let mut seen = 0usize;
            for x in it.skip(k).step_by(s) {
                out.push(idf(&x));
                seen += 1;
            }
            let after_skip = remaining.saturating_sub(k);
            let want = (after_skip + s - 1) / s;
            crate::check!(seen == want, "{}: skip({}).step_by({}) from prefix {} yielded {} elements, expected {} of the {} remaining", what, k, s, p.min(total), seen, want, remaining);
            return (out, false);
        }
        8 => {
            // position/find/any walk the whole iterator when nothing matches
            let mut visited = 0usize;
            let pos = it.position(|_| {
                visited += 1;
                false
            });
            crate::check!(pos.is_none() && visited == remaining, "{}: position() visited {} elements, {} remain", what, visited, remaining);
            exact(&it, 0, total);
            crate::check!(it.next().is_none(), "{}: Some after position() walked to the end", what);
            let extra = it.count();
            crate::check!(extra == 0, "{}: count() = {} on an exhausted iterator", what, extra);
            return (out, false);
        }
        _ => {
            let mut step = out.len();
            while let Some(x) = it.next() {
                out.push(idf(&x));
                if remaining == 0 {
                    crate::viol!("{}: yields more than len() = {} elements", what, total);
                    return (out, true);
                }
                remaining -= 1;
                step += 1;
                exact(&it, remaining, step);
            }
            for _ in 0..3 {
                if it.next().is_some() {
                    crate::viol!("{}: Some after exhaustion", what);
                }
                exact(&it, 0, total);
            }
            // ... and so does the fold family on the exhausted iterator
            let mut extra = 0usize;
            it.for_each(|_| extra += 1);
            crate::check!(extra == 0, "{}: for_each() visited {} elements of an exhausted iterator", what, extra);
        }
    }
    (out, true)
}

fn same_multiset(what: &str, got: (Vec<(u32, u16)>, bool), expect: &[(u32, u16)]) {
    let (mut got, complete) = got;
    got.sort();
    if !complete {
        // sub-multiset: every element yielded is stored, none more often than it is stored
        let mut j = 0;
        for g in &got {
            while j < expect.len() && expect[j] < *g {
                j += 1;
            }
            if j >= expect.len() || expect[j] != *g {
                crate::viol!("{}: yielded {:?}, which is not stored (or more often than it is stored)", what, g);
                return;
            }
            j += 1;
        }
        return;
    }
    if got != expect {
        let missing: Vec<_> = expect.iter().filter(|x| !got.contains(x)).take(4).collect();
        let mut dup = got.clone();
        dup.dedup();
        crate::viol!(
            "{}: yielded {} elements for contents of {}; missing {:?}; {} duplicate(s)",
            what, got.len(), expect.len(), missing, got.len() - dup.len()
        );
    }
}

/// Very large tables are walked in O(buckets) per iterator, so they get three switch points instead of all of them.
fn prefixes_for(spec: &Spec, len: usize, rng: &mut Rng, thorough: bool) -> Vec<usize> {
    if spec.recipe == crate::states::Recipe::HugeSparse {
        let mut v = vec![0, 1.min(len), len];
        v.dedup();
        return v;
    }
    prefixes(len, rng, thorough)
}

fn prefixes(len: usize, rng: &mut Rng, thorough: bool) -> Vec<usize> {
    if len <= 64 && (thorough || len <= 20) {
        (0..=len).collect()
    } else {
        let mut v = vec![0, 1, len / 2, len.saturating_sub(1), len];
        for _ in 0..6 {
            v.push(rng.usize_below(len + 1));
        }
        v.sort();
        v.dedup();
        v
    }
}

fn map_case<K: Elem, V: Elem>(c: &mut Ctx, spec: &Spec, rng: &mut Rng) {
    let probe: MapC<K, V> = build(spec);
    let f = probe.validate("C09 state");
    let expect = probe.contents();
    let vexp: Vec<(u32, u16)> = {
        let mut v: Vec<_> = probe.0.values().map(|v| (v.id(), v.gen())).collect();
        v.sort();
        v
    };
    let len = expect.len();
    drop(probe);
    let kid = |k: &K| (k.id(), k.gen());
    for p in prefixes_for(spec, len, rng, c.thorough()) {
        for mode in 0..MODES {
            let which = rng.below(9);
            let name = ["iter", "iter_mut", "keys", "values", "values_mut", "into_iter", "into_keys", "into_values", "drain"][which as usize];
            let what = format!("HashMap<{},{}>::{} [{}] prefix {} mode {}", K::NAME, V::NAME, name, spec.describe(), p, mode);
            let mut m: MapC<K, V> = build(spec);
            c.evaluations += 1;
            c.sig_parts(&[which, mode as u64, f.class as u64, (f.deleted > 0) as u64, (p == 0) as u64 + 2 * (p == len) as u64, crate::ctx::prop_salt(K::NAME)]);
            match which {
                0 => {
                    let got = drive(&what, m.0.iter(), &|x: &(&K, &V)| kid(x.0), len, p, mode, Some(&|i| i.clone()));
                    same_multiset(&what, got, &expect);
                }
                1 => {
                    let got = drive(&what, m.0.iter_mut(), &|x: &(&K, &mut V)| kid(x.0), len, p, mode, None);
                    same_multiset(&what, got, &expect);
                }
                2 => {
                    let got = drive(&what, m.0.keys(), &|x: &&K| kid(x), len, p, mode, Some(&|i| i.clone()));
                    same_multiset(&what, got, &expect);
                }
                3 => {
                    let got = drive(&what, m.0.values(), &|x: &&V| (x.id(), x.gen()), len, p, mode, Some(&|i| i.clone()));
                    same_multiset(&what, got, &vexp);
                }
                4 => {
                    let got = drive(&what, m.0.values_mut(), &|x: &&mut V| (x.id(), x.gen()), len, p, mode, None);
                    same_multiset(&what, got, &vexp);
                }
                5 => {
                    let got = drive(&what, m.0.into_iter(), &|x: &(K, V)| kid(&x.0), len, p, mode, None);
                    same_multiset(&what, got, &expect);
                    continue;
                }
                6 => {
                    let got = drive(&what, m.0.into_keys(), &|x: &K| kid(x), len, p, mode, None);
                    same_multiset(&what, got, &expect);
                    continue;
                }
                7 => {
                    let got = drive(&what, m.0.into_values(), &|x: &V| (x.id(), x.gen()), len, p, mode, None);
                    same_multiset(&what, got, &vexp);
                    continue;
                }
                _ => {
                    let got = drive(&what, m.0.drain(), &|x: &(K, V)| kid(&x.0), len, p, mode, None);
                    same_multiset(&what, got, &expect);
                    crate::check!(m.0.is_empty(), "{}: map not empty after drain", what);
                }
            }
            drop(m);
        }
    }
}

fn set_case<T: Elem>(c: &mut Ctx, spec: &Spec, rng: &mut Rng) {
    let probe: SetC<T> = build(spec);
    let f = probe.validate("C09 state");
    let expect = probe.contents();
    let len = expect.len();
    drop(probe);
    for p in prefixes_for(spec, len, rng, c.thorough()) {
        for mode in 0..MODES {
            let which = rng.below(3);
            let name = ["iter", "into_iter", "drain"][which as usize];
            let what = format!("HashSet<{}>::{} [{}] prefix {} mode {}", T::NAME, name, spec.describe(), p, mode);
            let mut s: SetC<T> = build(spec);
            c.evaluations += 1;
            c.sig_parts(&[20 + which, mode as u64, f.class as u64, (f.deleted > 0) as u64, (p == 0) as u64 + 2 * (p == len) as u64, crate::ctx::prop_salt(T::NAME)]);
            match which {
                0 => {
                    let got = drive(&what, s.0.iter(), &|x: &&T| (x.id(), x.gen()), len, p, mode, Some(&|i| i.clone()));
                    same_multiset(&what, got, &expect);
                }
                1 => {
                    let got = drive(&what, s.0.into_iter(), &|x: &T| (x.id(), x.gen()), len, p, mode, None);
                    same_multiset(&what, got, &expect);
                    continue;
                }
                _ => {
                    let got = drive(&what, s.0.drain(), &|x: &T| (x.id(), x.gen()), len, p, mode, None);
                    same_multiset(&what, got, &expect);
                }
            }
            drop(s);
        }
    }
}

fn table_case<E: Elem>(c: &mut Ctx, spec: &Spec, rng: &mut Rng) {
    let probe: TableC<E> = build(spec);
    let f = probe.validate("C09 state");
    let expect = probe.contents();
    let len = expect.len();
    drop(probe);
    for p in prefixes_for(spec, len, rng, c.thorough()) {
        for mode in 0..MODES {
            let which = rng.below(4);
            let name = ["iter", "iter_mut", "into_iter", "drain"][which as usize];
            let what = format!("HashTable<{}>::{} [{}] prefix {} mode {}", E::NAME, name, spec.describe(), p, mode);
            let mut t: TableC<E> = build(spec);
            c.evaluations += 1;
            c.sig_parts(&[40 + which, mode as u64, f.class as u64, (f.deleted > 0) as u64, (p == 0) as u64 + 2 * (p == len) as u64, crate::ctx::prop_salt(E::NAME)]);
            match which {
                0 => {
                    let got = drive(&what, t.0.iter(), &|x: &&E| (x.id(), x.gen()), len, p, mode, Some(&|i| i.clone()));
                    same_multiset(&what, got, &expect);
                }
                1 => {
                    let got = drive(&what, t.0.iter_mut(), &|x: &&mut E| (x.id(), x.gen()), len, p, mode, None);
                    same_multiset(&what, got, &expect);
                }
                2 => {
                    let got = drive(&what, t.0.into_iter(), &|x: &E| (x.id(), x.gen()), len, p, mode, None);
                    same_multiset(&what, got, &expect);
                    continue;
                }
                _ => {
                    let got = drive(&what, t.0.drain(), &|x: &E| (x.id(), x.gen()), len, p, mode, None);
                    same_multiset(&what, got, &expect);
                }
            }
            drop(t);
        }
    }
}

/// Table of zero-sized elements with many duplicates: only counts can be compared.
fn zst_table_case<ZT: Elem>(c: &mut Ctx, rng: &mut Rng) {
    use crate::ckalloc::CkAlloc;
    let n = *rng.pick(&[0usize, 1, 3, 7, 8, 15, 16, 17, 40, 100]);
    let removed = rng.usize_below(n / 2 + 1);
    // zero-sized elements are indistinguishable, so they all share one (lawful) hash
    let h = rng.next();
    let mk = || {
        let mut t: hashbrown::HashTable<ZT, CkAlloc> = hashbrown::HashTable::new_in(CkAlloc);
        for _ in 0..n {
            t.insert_unique(h, ZT::make(0, 0), |_| h);
        }
        for _ in 0..removed {
            if let Ok(o) = t.find_entry(h, |_| true) {
                let _ = o.remove();
            }
        }
        t
    };
    let len = n - removed;
    for p in [0, len / 2, len] {
        for mode in 0..MODES {
            c.evaluations += 1;
            c.sig_parts(&[60, mode as u64, (len > 16) as u64, p as u64 % 3]);
            let what = format!("HashTable<{}> n={} removed={} prefix {} mode {}", ZT::NAME, n, removed, p, mode);
            let t = mk();
            crate::check!(t.len() == len, "{}: len {} != {}", what, t.len(), len);
            let got = drive(&what, t.iter(), &|_x: &&ZT| (0, 0), len, p, mode, Some(&|i| i.clone()));
            crate::check!(got.0.len() == len || !got.1, "{}: iter yielded {} of {}", what, got.0.len(), len);
            let got = drive(&what, t.into_iter(), &|_x: &ZT| (0, 0), len, p, mode, None);
            crate::check!(got.0.len() == len || !got.1, "{}: into_iter yielded {} of {}", what, got.0.len(), len);
        }
    }
}

fn defaults(c: &mut Ctx) {
    use hashbrown::{hash_map, hash_set, hash_table};
    macro_rules! empty {
        ($t:ty, $n:expr) => {{
            let mut it: $t = Default::default();
            c.evaluations += 1;
            if it.next().is_some() || it.size_hint() != (0, Some(0)) {
                crate::viol!("default-constructed {} is not empty", $n);
            }
        }};
    }
    empty!(hash_map::Iter<'_, T24, T24>, "hash_map::Iter");
    empty!(hash_map::IterMut<'_, T24, T24>, "hash_map::IterMut");
    empty!(hash_map::Keys<'_, T24, T24>, "hash_map::Keys");
    empty!(hash_map::Values<'_, T24, T24>, "hash_map::Values");
    empty!(hash_map::ValuesMut<'_, T24, T24>, "hash_map::ValuesMut");
    empty!(hash_map::IntoIter<T24, T24, crate::ckalloc::CkAlloc>, "hash_map::IntoIter");
    empty!(hash_map::IntoKeys<T24, T24, crate::ckalloc::CkAlloc>, "hash_map::IntoKeys");
    empty!(hash_map::IntoValues<T24, T24, crate::ckalloc::CkAlloc>, "hash_map::IntoValues");
    empty!(hash_set::Iter<'_, T24>, "hash_set::Iter");
    empty!(hash_set::IntoIter<T24, crate::ckalloc::CkAlloc>, "hash_set::IntoIter");
    empty!(hash_table::Iter<'_, T24>, "hash_table::Iter");
    empty!(hash_table::IterMut<'_, T24>, "hash_table::IterMut");
    empty!(hash_table::IntoIter<T24, crate::ckalloc::CkAlloc>, "hash_table::IntoIter");
    // IterHash/IterHashMut are not exact-size iterators: only emptiness is stated for them
    {
        let mut a: hash_table::IterHash<'_, T24> = Default::default();
        let mut b: hash_table::IterHashMut<'_, T24> = Default::default();
        c.evaluations += 2;
        crate::check!(a.next().is_none() && b.next().is_none(), "default-constructed hash_table::IterHash(Mut) is not empty");
    }
    c.sig(0xdefa);
}

pub fn run(c: &mut Ctx) {
    c.run_scenarios(|c, idx, rng| {
        let recipe = RECIPES[((crate::util::mix(idx) / 9) % RECIPES.len() as u64) as usize];
        // one scenario in 40: a very large sparse table (2^18..2^26 buckets), so that iterator code gated on the amount of
        // control bytes ahead is driven in every mode as well
        let recipe = if crate::util::mix(idx ^ 0x9e) % 40 == 0 { crate::states::Recipe::HugeSparse } else { recipe };
        let spec = Spec::random(rng, recipe);
        if spec.recipe == crate::states::Recipe::HugeSparse {
            c.bump("huge_sparse_states");
        }
        let mut d = Json::obj();
        d.set("state", Json::s(spec.describe()));
        d.set("case", Json::i(crate::util::mix(idx) % 9));
        c.describe(d);
        match crate::util::mix(idx) % 9 {
            0 => map_case::<T24, T24>(c, &spec, rng),
            1 => map_case::<P8, P8>(c, &spec, rng),
            2 => map_case::<B1, Z>(c, &spec, rng),
            3 if rng.chance(1, 3) => map_case::<crate::elem::L600, B1>(c, &spec, rng),
            3 => map_case::<L200, B1>(c, &spec, rng),
            4 => set_case::<T24>(c, &spec, rng),
            5 => set_case::<B1>(c, &spec, rng),
            6 => table_case::<T24>(c, &spec, rng),
            7 => table_case::<P8>(c, &spec, rng),
            _ => {
                zst_table_case::<Z>(c, rng);
                zst_table_case::<crate::elem::Z8>(c, rng);
                defaults(c);
            }
        }
    });
}
