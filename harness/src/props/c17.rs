//! C17: capacity and layout arithmetic is total and overflow-free.
//! The real private functions are called through the verif hooks and compared with u128 reference arithmetic.

use crate::ctx::Ctx;
use crate::util::{Json, Rng};
use hashbrown::verif::{bucket_mask_to_capacity, calculate_layout_for, capacity_to_buckets, probe_positions, table_layout_of, GROUP_WIDTH};

fn check_cap(c: &mut Ctx, cap: usize, size: usize, align: usize) {
    c.evaluations += 1;
    match capacity_to_buckets(cap, size, align) {
        None => {
            if (cap as u128) <= (1u128 << 40) {
                crate::viol!("capacity_to_buckets({}, size {}) reports overflow for a small request", cap, size);
            }
            // overflow may only be reported when 8*cap really does not fit
            if (cap as u128) * 8 <= usize::MAX as u128 {
                crate::viol!("capacity_to_buckets({}, size {}) reports overflow although 8*cap fits in usize", cap, size);
            }
            c.sig_parts(&[1, 0]);
        }
        Some(b) => {
            if c.evaluations % 50_000_017 == 1 || cap < 3 && size == 1 {
                c.log(format!("capacity_to_buckets(cap {}, size {}) = {} buckets, usable capacity {}", cap, size, b, bucket_mask_to_capacity(b - 1)));
            }
            if !b.is_power_of_two() {
                crate::viol!("capacity_to_buckets({}, size {}) = {} is not a power of two", cap, size, b);
                return;
            }
            let usable = bucket_mask_to_capacity(b - 1);
            if usable < cap {
                crate::viol!("capacity_to_buckets({}, size {}) = {} buckets, whose usable capacity {} is below the request", cap, size, b, usable);
            }
            if usable >= b {
                crate::viol!("bucket_mask_to_capacity({}) = {} leaves no empty slot in {} buckets", b - 1, usable, b);
            }
            c.sig_parts(&[2, b.trailing_zeros() as u64, if cap < 15 { size.min(8) as u64 } else { 99 }]);
        }
    }
}

fn check_layout(c: &mut Ctx, size: usize, align: usize, buckets: usize) {
    c.evaluations += 1;
    let w = GROUP_WIDTH as u128;
    let ctrl_align = (align as u128).max(w);
    let data = size as u128 * buckets as u128;
    let off_true = (data + ctrl_align - 1) / ctrl_align * ctrl_align;
    let len_true = off_true + buckets as u128 + w;
    let fits = len_true <= isize::MAX as u128 - (ctrl_align - 1);
    match calculate_layout_for(size, align, buckets) {
        None => {
            if fits && len_true <= (1u128 << 47) {
                crate::viol!("calculate_layout_for(size {}, align {}, buckets {}) reports overflow although {} bytes suffice", size, align, buckets, len_true);
            }
            if fits {
                c.bump("layout_none_although_fits");
            }
            c.sig_parts(&[3, size.min(300) as u64, align.trailing_zeros() as u64]);
        }
        Some((sz, al, off)) => {
            if buckets == 64 && (size == 3 || size == 64) && align <= 64 {
                c.log(format!("calculate_layout_for(size {}, align {}, buckets {}) = size {} align {} ctrl_offset {}", size, align, buckets, sz, al, off));
            }
            let what = format!("calculate_layout_for(size {}, align {}, buckets {}) = (size {}, align {}, ctrl_offset {})", size, align, buckets, sz, al, off);
            crate::check!(al.is_power_of_two() && (al as u128) >= ctrl_align, "{}: alignment is not sufficient for elements and an aligned group scan", what);
            crate::check!((off as u128) >= data, "{}: the control bytes start inside the element area ({} bytes of elements)", what, data);
            crate::check!(off % al == 0 && off % align == 0 && off % GROUP_WIDTH == 0, "{}: the control offset is not aligned for the elements / the group scan", what);
            crate::check!((sz as u128) >= off as u128 + buckets as u128 + w, "{}: no room for all control bytes incl. the mirrored group", what);
            crate::check!((sz as u128) >= len_true, "{}: size wrapped (the true size is {})", what, len_true);
            crate::check!((sz as u128) <= isize::MAX as u128 - (al as u128 - 1), "{}: size exceeds isize::MAX after alignment padding", what);
            if !fits {
                crate::viol!("{}: a layout was produced although the true size {} does not fit", what, len_true);
            }
            c.sig_parts(&[4, size.min(300) as u64, align.trailing_zeros() as u64, buckets.trailing_zeros() as u64]);
        }
    }
}

fn check_probe(c: &mut Ctx, buckets: usize, start: u64) {
    c.evaluations += 1;
    let w = GROUP_WIDTH;
    let mask = buckets - 1;
    let groups = (buckets / w).max(1);
    let pos = probe_positions(start, mask, groups);
    if buckets == 128 && start < 2 {
        c.log(format!("probe_positions(start {}, {} buckets) = {:?}", start, buckets, pos));
    }
    let s0 = (start as usize) & mask;
    crate::check!(pos[0] == s0, "probe sequence of hash {:#x} in {} buckets starts at {} instead of {}", start, buckets, pos[0], s0);
    let mut seen = vec![false; groups];
    for (i, p) in pos.iter().enumerate() {
        crate::check!(*p <= mask, "probe position {} out of range for {} buckets", p, buckets);
        let rel = p.wrapping_sub(s0) & mask;
        if buckets >= w {
            if rel % w != 0 {
                crate::viol!("probe step {} of start {} in {} buckets is at offset {} (not a whole number of groups)", i, s0, buckets, rel);
                return;
            }
            let g = rel / w;
            if seen[g] {
                crate::viol!("probe sequence of start {} in {} buckets visits group {} twice within the first {} steps", s0, buckets, g, groups);
                return;
            }
            seen[g] = true;
        }
    }
    if buckets >= w {
        crate::check!(seen.iter().all(|x| *x), "probe sequence of start {} in {} buckets misses a group", s0, buckets);
    }
    c.sig_parts(&[5, buckets.trailing_zeros() as u64]);
}

pub fn run(c: &mut Ctx) {
    let mut rng = Rng::derive(c.seed, 17, c.shard, 0);
    let (sh, n) = (c.shard as usize, c.nshards as usize);
    c.begin_scenario(c.shard);
    let mut d = Json::obj();
    d.set("what", Json::s("pure arithmetic sweep"));
    d.set("group_width", Json::i(GROUP_WIDTH));
    c.describe(d);
    let mut sizes: Vec<usize> = (0..=64).chain([200, 4096, 1 << 20, isize::MAX as usize / 2 - 1, isize::MAX as usize / 2, isize::MAX as usize / 2 + 1]).collect();
    // element sizes whose product with a bucket count lands next to usize::MAX / isize::MAX (the padding and control-byte
    // additions are the steps that can wrap there); 2^61 - 1 is the largest array type rustc accepts on this target
    for bp in 2..=61u32 {
        for base in [usize::MAX >> bp, (isize::MAX as usize) >> bp] {
            // every size in the neighbourhood: which of them tips a bound depends on its residue modulo the control
            // alignment and on the few dozen bytes of control bytes and padding that are added to the product
            let span = if bp <= 8 { 72 } else { 3 };
            for d in 0..=span {
                sizes.push(base + 2 - d.min(base));
            }
        }
    }
    sizes.sort();
    sizes.dedup();
    // --- (a) capacity -> buckets --------------------------------------------------------------
    // small capacities x every element size (the minimum table size depends on the element size)
    for cap in 1..15usize {
        for s in 0..=64usize {
            check_cap(c, cap, s, 1);
        }
    }
    // contiguous range, sharded
    let hi: usize = if c.thorough() { 1usize << 32 } else { 1usize << 27 };
    let mut cap = 15 + sh;
    while cap < hi {
        check_cap(c, cap, 8, 8);
        cap += n;
    }
    c.add("contiguous_caps_upto", hi as u64 / n as u64);
    // +-2^12 around every 2^k and 7/8*2^k up to usize::MAX (each shard takes a slice of k)
    for k in 4..=64u32 {
        if (k as usize) % n != sh % n.min(61) && n <= 61 {
            continue;
        }
        for base in [(1u128 << k), (1u128 << k) / 8 * 7] {
            let span: i128 = if c.thorough() { 4096 } else { 512 };
            for dlt in -span..=span {
                let v = base as i128 + dlt;
                if v >= 1 && v <= usize::MAX as i128 {
                    check_cap(c, v as usize, *rng.pick(&sizes).min(&4096), 8);
                }
            }
        }
    }
    for v in [usize::MAX, usize::MAX - 1, usize::MAX / 8, usize::MAX / 8 + 1, usize::MAX / 7, isize::MAX as usize, isize::MAX as usize + 1] {
        check_cap(c, v, 8, 8);
    }
    // --- (b) layouts -----------------------------------------------------------------------------
    for (si, size) in sizes.iter().enumerate() {
        if si % n != sh {
            continue;
        }
        for ap in 0..=12u32 {
            let align = 1usize << ap;
            // a real type's size is a multiple of its alignment
            if *size % align != 0 {
                continue;
            }
            for bp in 0..=62u32 {
                check_layout(c, *size, align, 1usize << bp);
            }
        }
    }
    // the layouts of the element menu as the real TableLayout::new computes them
    macro_rules! menu {
        ($($t:ty),*) => {$(
            let (s, a) = table_layout_of::<$t>();
            c.evaluations += 1;
            crate::check!(s == std::mem::size_of::<$t>() && a == std::mem::align_of::<$t>().max(GROUP_WIDTH), "TableLayout::new::<{}>() = (size {}, ctrl_align {})", stringify!($t), s, a);
        )*};
    }
    use crate::elem::*;
    menu!(Z, B1, B2, B3, B6, P8, T24, L200, A64, (T24, T24), (A64, P8), (B1, Z), (L200, B1), u128);
    // --- (c) probe sequence --------------------------------------------------------------------------
    let max_pow = if c.thorough() { 26 } else { 20 };
    for bp in 0..=max_pow {
        let buckets = 1usize << bp;
        let groups = (buckets / GROUP_WIDTH).max(1);
        if buckets <= (1 << 16) || c.thorough() && buckets <= (1 << 18) {
            // every start position (positions, not only group starts), sharded
            let mut s = sh;
            while s < buckets {
                if groups <= 64 || s % 7 == sh % 7 {
                    check_probe(c, buckets, s as u64);
                }
                s += n;
            }
        } else {
            for _ in 0..(if c.thorough() { 64 } else { 8 }) {
                check_probe(c, buckets, rng.next());
            }
        }
    }
    c.end_scenario();
}
