//! C04: a panic in any user callback leaves a valid collection and no double drop.
//!
//! Fault enumeration: for a sampled (state, operation) the operation is first
//! dry-run on a freshly built copy of the state to count the invocations of
//! every callback class; then, for every class and every k below that count,
//! the state is rebuilt from its seed, the fuse (class, k) is armed, the
//! operation runs under catch_unwind and the post-conditions of the property
//! are checked; finally the collection is used again and dropped.

use crate::ckalloc::{self, CkAlloc, EvKind};
use crate::ctx::Ctx;
use crate::elem::{self, Elem};
use crate::for_pair;
use crate::fuse::{self, Class, CLASSES};
use crate::mapdrv::{pick_plan, Map, MapDrv, W_GENERAL};
use crate::plan::{KeyRef, Plan, PlanBH};
use crate::util::{catch, is_injected, payload_str, Json, Rng};
use crate::validate;
use hashbrown::hash_map::{Entry, RawEntryMut};

pub const C04_PAIRS: [&str; 8] = ["T24xT24", "P8xP8", "P8xT24", "T24xZ", "B1xB1", "L200xB1", "L600xB1", "P8xL600"];

#[derive(Clone, Copy, Debug)]
pub enum Recipe {
    Fresh,
    Small,
    /// len == capacity without tombstones: the next insert resizes
    Full,
    /// growth_left == 0 because of tombstones, len <= capacity/2: the next insert rehashes in place
    Saturated,
    /// saturated through random removals and refills (displaced elements, interleaved tombstones)
    SaturatedRandom,
    /// a randomly drawn control-byte layout (see states::layout_plan)
    Layout,
    /// contiguous run with holes: tombstones present, room left
    Tombstoned,
    /// a seeded random history
    History,
}
pub const RECIPES: [Recipe; 8] = [Recipe::Fresh, Recipe::Small, Recipe::Full, Recipe::Saturated, Recipe::SaturatedRandom, Recipe::Layout, Recipe::Tombstoned, Recipe::History];

#[derive(Clone, Debug)]
pub struct StateSpec {
    pub plan: Plan,
    pub salt: u64,
    pub recipe: Recipe,
    pub seed: u64,
    pub size: u32,
}

/// Builds the state deterministically. Returns the driver (map + model).
pub fn build_state<K: Elem, V: Elem>(s: &StateSpec, c: &mut Ctx) -> MapDrv<K, V> {
    let mut rng = Rng::new(s.seed);
    let evals_before = c.evaluations;
    let bh = PlanBH::new(s.plan, s.salt);
    let universe = 4096u32.min(K::ID_SPACE);
    // scaled-down sizes for the Miri lane
    let s = &if crate::util::slow_lane() { StateSpec { size: s.size % 2, ..s.clone() } } else { s.clone() };
    let mut d: MapDrv<K, V> = MapDrv::new(bh, universe, 0);
    d.validate_every = u32::MAX;
    let put = |d: &mut MapDrv<K, V>, id: u32, rng: &mut Rng| {
        let (k, kg) = d.mk_k(id);
        let (v, vv, vg) = d.mk_v(rng);
        d.map.insert(k, v);
        d.model.insert(id, kg, vv, vg);
    };
    let del = |d: &mut MapDrv<K, V>, id: u32| {
        d.map.remove(&KeyRef(id));
        d.model.remove(id);
    };
    match s.recipe {
        Recipe::Fresh => {}
        Recipe::Small => {
            for id in 0..(1 + s.size % 3) {
                put(&mut d, id, &mut rng);
            }
        }
        Recipe::Full => {
            let n = [3u32, 7, 14, 28, 56][(s.size % 5) as usize].min(universe - 1);
            d.map = Map::with_capacity_and_hasher_in(n as usize, bh, CkAlloc);
            let cap = d.map.capacity() as u32;
            for id in 0..cap.min(universe - 1) {
                put(&mut d, id, &mut rng);
            }
        }
        Recipe::Saturated => {
            // fill a table to capacity, then remove most of it; under clustered plans the removed
            // slots become tombstones and growth_left stays 0
            let n = [28u32, 56, 14, 112][(s.size % 4) as usize].min(universe - 1);
            for id in 0..n {
                put(&mut d, id, &mut rng);
            }
            let cap = d.map.capacity() as u32;
            let mut next = n;
            while (d.map.len() as u32) < cap && next < universe - 1 {
                put(&mut d, next, &mut rng);
                next += 1;
            }
            let keep = (cap / 2).saturating_sub(1 + s.size % 3).max(1);
            let ids: Vec<u32> = d.model.e.iter().map(|e| e.id).collect();
            // remove from the middle of the run so that neighbours stay full
            for id in ids.iter().rev() {
                if d.map.len() as u32 <= keep {
                    break;
                }
                del(&mut d, *id);
            }
        }
        Recipe::SaturatedRandom => {
            let n = [28u32, 56, 14, 112][(s.size % 4) as usize].min(universe - 1);
            d.map = Map::with_capacity_and_hasher_in(n as usize, bh, CkAlloc);
            let cap = d.map.capacity() as u32;
            let mut next = 0u32;
            while (d.map.len() as u32) < cap && next + 1 < universe {
                put(&mut d, next, &mut rng);
                next += 1;
            }
            for _round in 0..6 {
                let keep = (cap / 2).saturating_sub(1 + s.size % 3).max(1);
                while d.model.len() as u32 > keep {
                    let i = rng.usize_below(d.model.len());
                    let id = d.model.e[i].id;
                    del(&mut d, id);
                }
                let mut guard = 0;
                while d.map.verif_dump().growth_left > 0 && (d.model.len() as u32) < keep && next + 1 < universe && guard < 4 * cap {
                    put(&mut d, next, &mut rng);
                    next += 1;
                    guard += 1;
                }
                let dump = d.map.verif_dump();
                if dump.growth_left == 0 && (d.map.len() as u32) <= cap / 2 {
                    break;
                }
                let mut guard = 0;
                while d.map.verif_dump().growth_left > 0 && next + 1 < universe && guard < 4 * cap {
                    put(&mut d, next, &mut rng);
                    next += 1;
                    guard += 1;
                }
            }
        }
        Recipe::Layout => {
            let lp = crate::states::layout_plan(&mut rng, universe);
            d.map = Map::with_capacity_and_hasher_in(lp.capacity, bh, CkAlloc);
            for id in &lp.inserts {
                put(&mut d, *id, &mut rng);
            }
            for id in &lp.deletes {
                del(&mut d, *id);
            }
        }
        Recipe::Tombstoned => {
            let n = [20u32, 40, 12][(s.size % 3) as usize].min(universe - 1);
            for id in 0..n {
                put(&mut d, id, &mut rng);
            }
            for id in (n / 4)..(n / 2) {
                del(&mut d, id);
            }
        }
        Recipe::History => {
            d.universe = 32u32.min(K::ID_SPACE);
            let n = 10 + s.size % 60;
            for _ in 0..n {
                d.step(c, &mut rng, &W_GENERAL);
            }
        }
    }
    c.evaluations = evals_before;
    d
}

#[derive(Clone, Debug)]
pub enum FOp {
    Insert(u32),
    TryInsert(u32),
    EntryOrInsert(u32),
    EntryOrInsertWith(u32),
    EntryAndModify(u32),
    EntryRefInsert(u32),
    RustcEntryInsert(u32),
    RawInsert(u32),
    RawInsertWithHasher(u32),
    ReplaceEntryWith(u32, bool),
    AndReplaceEntryWith(u32, bool),
    RawReplaceEntryWith(u32, bool),
    Remove(u32),
    Get(u32),
    Reserve(usize),
    ShrinkTo(usize),
    ShrinkToFit,
    Extend(Vec<u32>),
    FromIter(Vec<u32>),
    Clone,
    /// clone_from into a target built from this recipe
    CloneFrom(u8),
    Retain(u64),
    ExtractIf(u64),
    DrainPart(usize),
    Clear,
    DropMap,
    GetManyMut(u32, u32),
    /// dst.extend(src) where src is another hashbrown map consumed by value (two-collection interaction)
    ExtendFromIntoIter(Vec<u32>),
    /// dst.extend(src.drain())
    ExtendFromDrain(Vec<u32>),
    /// into_iter().for_each / into_keys().fold / into_values().for_each with a closure that may panic
    IntoIterForEach(u8),
    /// drain().for_each with a closure that may panic
    DrainForEach,
    /// extract_if whose predicate panics; the same ExtractIf object is then driven on to exhaustion
    ExtractIfResume(u64),
}

impl FOp {
    pub fn kind(&self) -> &'static str {
        match self {
            FOp::Insert(_) => "insert",
            FOp::TryInsert(_) => "try_insert",
            FOp::EntryOrInsert(_) => "entry.or_insert",
            FOp::EntryOrInsertWith(_) => "entry.or_insert_with",
            FOp::EntryAndModify(_) => "entry.and_modify",
            FOp::EntryRefInsert(_) => "entry_ref.insert",
            FOp::RustcEntryInsert(_) => "rustc_entry.insert",
            FOp::RawInsert(_) => "raw_entry.insert",
            FOp::RawInsertWithHasher(_) => "raw_entry.insert_with_hasher",
            FOp::ReplaceEntryWith(..) => "replace_entry_with",
            FOp::AndReplaceEntryWith(..) => "and_replace_entry_with",
            FOp::RawReplaceEntryWith(..) => "raw.replace_entry_with",
            FOp::Remove(_) => "remove",
            FOp::Get(_) => "get",
            FOp::Reserve(_) => "reserve",
            FOp::ShrinkTo(_) => "shrink_to",
            FOp::ShrinkToFit => "shrink_to_fit",
            FOp::Extend(_) => "extend",
            FOp::FromIter(_) => "from_iter",
            FOp::Clone => "clone",
            FOp::CloneFrom(_) => "clone_from",
            FOp::Retain(_) => "retain",
            FOp::ExtractIf(_) => "extract_if",
            FOp::DrainPart(_) => "drain",
            FOp::Clear => "clear",
            FOp::DropMap => "drop",
            FOp::GetManyMut(..) => "get_many_mut",
            FOp::ExtendFromIntoIter(_) => "extend(from into_iter)",
            FOp::ExtendFromDrain(_) => "extend(from drain)",
            FOp::IntoIterForEach(_) => "into_iter.for_each",
            FOp::DrainForEach => "drain.for_each",
            FOp::ExtractIfResume(_) => "extract_if resumed after panic",
        }
    }
    /// operations that insert at most one element (the "contents unchanged when growing" clause applies)
    fn single_insert(&self) -> bool {
        matches!(
            self,
            FOp::Insert(_)
                | FOp::TryInsert(_)
                | FOp::EntryOrInsert(_)
                | FOp::EntryOrInsertWith(_)
                | FOp::EntryRefInsert(_)
                | FOp::RustcEntryInsert(_)
                | FOp::RawInsert(_)
                | FOp::RawInsertWithHasher(_)
                | FOp::Reserve(_)
                | FOp::ShrinkTo(_)
                | FOp::ShrinkToFit
        )
    }
}

struct TickIter<I> {
    inner: I,
}
impl<I: Iterator> Iterator for TickIter<I> {
    type Item = I::Item;
    fn next(&mut self) -> Option<I::Item> {
        fuse::tick(Class::IterNext);
        self.inner.next()
    }
    fn size_hint(&self) -> (usize, Option<usize>) {
        self.inner.size_hint()
    }
}

fn pred(salt: u64, id: u32) -> bool {
    crate::util::splitmix64(salt ^ id as u64) % 2 == 0
}

/// Applies the operation. Everything the operation creates is created inside (so that it is dropped on unwind).
fn apply<K: Elem, V: Elem>(op: &FOp, d: &mut MapDrv<K, V>, other: &mut Option<Map<K, V>>) {
    let bh = d.bh;
    let map = &mut d.map;
    match op {
        FOp::Insert(id) => {
            map.insert(K::make(*id, 7), V::make(1, 7));
        }
        FOp::TryInsert(id) => {
            let _ = map.try_insert(K::make(*id, 7), V::make(1, 7));
        }
        FOp::EntryOrInsert(id) => {
            map.entry(K::make(*id, 7)).or_insert(V::make(1, 7)).check();
        }
        FOp::EntryOrInsertWith(id) => {
            map.entry(K::make(*id, 7))
                .or_insert_with(|| {
                    fuse::tick(Class::Closure);
                    V::make(1, 7)
                })
                .check();
        }
        FOp::EntryAndModify(id) => {
            map.entry(K::make(*id, 7))
                .and_modify(|v| {
                    fuse::tick(Class::Closure);
                    *v = V::make(2, 7);
                })
                .or_insert_with(|| {
                    fuse::tick(Class::Closure);
                    V::make(1, 7)
                });
        }
        FOp::EntryRefInsert(id) => {
            let kr = KeyRef(*id);
            map.entry_ref(&kr).or_insert(V::make(1, 7)).check();
        }
        FOp::RustcEntryInsert(id) => {
            map.rustc_entry(K::make(*id, 7)).or_insert(V::make(1, 7)).check();
        }
        FOp::RawInsert(id) => {
            if let RawEntryMut::Vacant(v) = map.raw_entry_mut().from_key(&KeyRef(*id)) {
                v.insert(K::make(*id, 7), V::make(1, 7));
            }
        }
        FOp::RawInsertWithHasher(id) => {
            let h = bh.hash_of(*id);
            if let RawEntryMut::Vacant(v) = map.raw_entry_mut().from_hash(h, |k| k.id() == *id) {
                v.insert_with_hasher(h, K::make(*id, 7), V::make(1, 7), |k| {
                    fuse::tick(Class::Hash);
                    bh.hash_of(k.id())
                });
            }
        }
        FOp::ReplaceEntryWith(id, keep) => {
            if let Entry::Occupied(o) = map.entry(K::make(*id, 7)) {
                let _ = o.replace_entry_with(|k, v| {
                    k.check();
                    v.check();
                    fuse::tick(Class::Closure);
                    if *keep {
                        Some(V::make(3, 7))
                    } else {
                        None
                    }
                });
            }
        }
        FOp::AndReplaceEntryWith(id, keep) => {
            let _ = map.entry(K::make(*id, 7)).and_replace_entry_with(|k, v| {
                k.check();
                v.check();
                fuse::tick(Class::Closure);
                if *keep {
                    Some(V::make(3, 7))
                } else {
                    None
                }
            });
        }
        FOp::RawReplaceEntryWith(id, keep) => {
            if let RawEntryMut::Occupied(o) = map.raw_entry_mut().from_key(&KeyRef(*id)) {
                let _ = o.replace_entry_with(|k, v| {
                    k.check();
                    v.check();
                    fuse::tick(Class::Closure);
                    if *keep {
                        Some(V::make(3, 7))
                    } else {
                        None
                    }
                });
            }
        }
        FOp::Remove(id) => {
            let _ = map.remove(&KeyRef(*id));
        }
        FOp::Get(id) => {
            let _ = map.get(&KeyRef(*id));
            let _ = map.contains_key(&K::make(*id, 7));
        }
        FOp::Reserve(n) => map.reserve(*n),
        FOp::ShrinkTo(n) => map.shrink_to(*n),
        FOp::ShrinkToFit => map.shrink_to_fit(),
        FOp::Extend(ids) => {
            let items: Vec<(K, V)> = ids.iter().map(|id| (K::make(*id, 7), V::make(1, 7))).collect();
            map.extend(TickIter { inner: items.into_iter() });
        }
        FOp::FromIter(ids) => {
            let items: Vec<(K, V)> = ids.iter().map(|id| (K::make(*id, 7), V::make(1, 7))).collect();
            let m: Map<K, V> = TickIter { inner: items.into_iter() }.collect();
            drop(m);
        }
        FOp::Clone => {
            let c = map.clone();
            drop(c);
        }
        FOp::CloneFrom(_) => {
            if let Some(t) = other.as_mut() {
                t.clone_from(map);
            }
        }
        FOp::Retain(salt) => map.retain(|k, v| {
            k.check();
            v.check();
            fuse::tick(Class::Closure);
            pred(*salt, k.id())
        }),
        FOp::ExtractIf(salt) => {
            let it = map.extract_if(|k, _| {
                fuse::tick(Class::Closure);
                pred(*salt, k.id())
            });
            for (k, v) in it {
                k.check();
                v.check();
            }
        }
        FOp::DrainPart(n) => {
            let mut dr = map.drain();
            for _ in 0..*n {
                if let Some((k, v)) = dr.next() {
                    k.check();
                    v.check();
                }
            }
            drop(dr);
        }
        FOp::Clear => map.clear(),
        FOp::DropMap => {
            let old = std::mem::replace(map, Map::with_hasher_in(bh, CkAlloc));
            drop(old);
        }
        FOp::GetManyMut(a, b) => {
            let _ = map.get_many_mut([&KeyRef(*a), &KeyRef(*b)]);
        }
        FOp::ExtendFromIntoIter(ids) | FOp::ExtendFromDrain(ids) => {
            // the source is another hashbrown map on its own allocator instance
            let mut src: Map<K, V> = Map::with_hasher_in(PlanBH::new(bh.plan, bh.salt ^ 0x5555), crate::ckalloc::CkAlloc { id: 8 });
            for id in ids {
                src.insert(K::make(*id, 7), V::make(1, 7));
            }
            if matches!(op, FOp::ExtendFromIntoIter(_)) {
                map.extend(src);
            } else {
                map.extend(src.drain());
                // the drained source must be an empty, usable map
                crate::check!(src.is_empty(), "extend(src.drain()): the source is not empty afterwards");
                src.insert(K::make(0, 7), V::make(0, 7));
            }
        }
        FOp::IntoIterForEach(which) => {
            let old = std::mem::replace(map, Map::with_hasher_in(bh, CkAlloc));
            match which % 3 {
                0 => old.into_iter().for_each(|(k, v)| {
                    fuse::tick(Class::Closure);
                    k.check();
                    v.check();
                }),
                1 => {
                    let n = old.into_keys().fold(0usize, |n, k| {
                        fuse::tick(Class::Closure);
                        k.check();
                        n + 1
                    });
                    let _ = n;
                }
                _ => old.into_values().for_each(|v| {
                    fuse::tick(Class::Closure);
                    v.check();
                }),
            }
        }
        FOp::DrainForEach => {
            map.drain().for_each(|(k, v)| {
                fuse::tick(Class::Closure);
                k.check();
                v.check();
            });
        }
        FOp::ExtractIfResume(salt) => {
            let seen = std::cell::RefCell::new(Vec::<u32>::new());
            {
                let mut it = map.extract_if(|k, _| {
                    seen.borrow_mut().push(k.id());
                    fuse::tick(Class::Closure);
                    pred(*salt, k.id())
                });
                loop {
                    match catch(|| it.next()) {
                        Ok(Some((k, v))) => {
                            k.check();
                            v.check();
                        }
                        Ok(None) => break,
                        Err(p) => {
                            if !is_injected(&p) {
                                std::panic::resume_unwind(p);
                            }
                            // the predicate panicked: keep driving the very same ExtractIf object
                        }
                    }
                }
            }
            let mut ids = seen.into_inner();
            let n = ids.len();
            ids.sort();
            ids.dedup();
            crate::check!(ids.len() == n, "extract_if resumed after a predicate panic offered {} element(s) to the predicate a second time", n - ids.len());
        }
    }
}

fn pick_op<K: Elem, V: Elem>(rng: &mut Rng, d: &MapDrv<K, V>) -> FOp {
    let present = |rng: &mut Rng| -> u32 {
        if d.model.e.is_empty() {
            0
        } else {
            d.model.e[rng.usize_below(d.model.e.len())].id
        }
    };
    let absent = |rng: &mut Rng| -> u32 {
        for _ in 0..16 {
            let id = rng.below(d.universe as u64) as u32;
            if d.model.pos(id).is_none() {
                return id;
            }
        }
        (d.universe - 1).min(K::ID_SPACE - 1)
    };
    let any = |rng: &mut Rng| -> u32 {
        if rng.chance(2, 3) {
            absent(rng)
        } else {
            present(rng)
        }
    };
    let cap = d.map.capacity();
    let len = d.map.len();
    match rng.below(37) {
        0..=4 => FOp::Insert(any(rng)),
        5 => FOp::TryInsert(any(rng)),
        6 => FOp::EntryOrInsert(any(rng)),
        7 => FOp::EntryOrInsertWith(any(rng)),
        8 => FOp::EntryAndModify(any(rng)),
        9 => FOp::EntryRefInsert(any(rng)),
        10 => FOp::RustcEntryInsert(any(rng)),
        11 => FOp::RawInsert(absent(rng)),
        12 => FOp::RawInsertWithHasher(absent(rng)),
        13 => FOp::ReplaceEntryWith(present(rng), rng.chance(1, 2)),
        14 => FOp::AndReplaceEntryWith(any(rng), rng.chance(1, 2)),
        15 => FOp::RawReplaceEntryWith(present(rng), rng.chance(1, 2)),
        16 => FOp::Remove(present(rng)),
        17 => FOp::Get(any(rng)),
        18 | 19 => FOp::Reserve(*rng.pick(&[1usize, 2, cap.saturating_sub(len) + 1, cap + 1, 3 * cap + 5])),
        20 => FOp::ShrinkTo(rng.usize_below(cap + 2)),
        21 => FOp::ShrinkToFit,
        22 => FOp::Extend((0..rng.below(6) + 1).map(|_| any(rng)).collect()),
        23 => FOp::FromIter((0..rng.below(8) + 1).map(|_| any(rng)).collect()),
        24 => FOp::Clone,
        25 => FOp::CloneFrom(rng.below(4) as u8),
        26 => FOp::Retain(rng.next()),
        27 => FOp::ExtractIf(rng.next()),
        28 => FOp::DrainPart(rng.usize_below(len + 1)),
        29 => {
            if rng.chance(1, 2) {
                FOp::Clear
            } else {
                FOp::DropMap
            }
        }
        31 => FOp::ExtendFromIntoIter((0..rng.below(6) + 1).map(|_| any(rng)).collect()),
        32 => FOp::ExtendFromDrain((0..rng.below(6) + 1).map(|_| any(rng)).collect()),
        33 => FOp::IntoIterForEach(rng.below(3) as u8),
        34 => FOp::DrainForEach,
        35 => FOp::ExtractIfResume(rng.next()),
        _ => {
            let a = present(rng);
            let mut b = any(rng);
            if b == a {
                b = (a + 1) % d.universe;
            }
            FOp::GetManyMut(a, b)
        }
    }
}

/// Builds the clone_from target for `CloneFrom(kind)`: 0 unallocated, 1 same buckets, 2 larger, 3 smaller with tombstones.
fn build_other<K: Elem, V: Elem>(kind: u8, d: &MapDrv<K, V>) -> Map<K, V> {
    // the target hashes with its own state (same plan, so equally lawful; another salt in two cases out of three):
    // after clone_from - also one that unwinds - the target must be consistent with whatever hasher it ends up holding
    let bh = if d.map.len() % 3 != 0 { crate::plan::PlanBH::new(d.bh.plan, d.bh.salt ^ 0x5eed_0f_7a46e7) } else { d.bh };
    // the target lives on its own allocator instance
    let other_alloc = crate::ckalloc::CkAlloc { id: 9 };
    let mut t: Map<K, V> = match kind {
        0 => Map::with_hasher_in(bh, other_alloc),
        1 => Map::with_capacity_and_hasher_in(d.map.capacity(), bh, other_alloc),
        2 => Map::with_capacity_and_hasher_in(d.map.capacity() * 4 + 8, bh, other_alloc),
        _ => Map::with_capacity_and_hasher_in(3, bh, other_alloc),
    };
    if kind != 0 {
        let n = (t.capacity().min(20)) as u32;
        for i in 0..n {
            t.insert(K::make((1000 + i) % K::ID_SPACE, 9), V::make(9, 9));
        }
        for i in 0..n / 2 {
            t.remove(&KeyRef((1000 + i) % K::ID_SPACE));
        }
    }
    t
}

/// clone_from out of a very large, sparse source (2^18..2^21 buckets, a handful of elements) with a fault in every
/// Clone / Alloc / Drop invocation: the unwind guards of clone_from run on a table whose header is deliberately not
/// well-formed at that moment, and code gated on the table size must cope with that too.
fn huge_clone_from_faults(c: &mut Ctx, rng: &mut Rng) {
    use crate::elem::T24;
    let lg = *rng.pick(&[18u32, 20, 20, 21]);
    let cap = (1usize << lg) / 8 * 7;
    let plan = *rng.pick(&[Plan::Mixed, Plan::Tail, Plan::Ident]);
    let bh_s = PlanBH::new(plan, rng.next());
    let bh_t = PlanBH::new(plan, rng.next());
    let n_src = 3 + rng.below(10) as u32;
    let mut d = Json::obj();
    d.set("case", Json::s(format!("clone_from out of a sparse source of 2^{} buckets ({} elements) with Clone/Alloc/Drop faults", lg, n_src)));
    c.describe(d);
    c.bump("huge_clone_from_fault_cases");
    let mut source: Map<T24, T24> = Map::with_capacity_and_hasher_in(cap, bh_s, crate::ckalloc::CkAlloc { id: 0 });
    for i in 0..n_src {
        source.insert(T24::make(i, 1), T24::make(i + 50, 1));
    }
    let src_before = contents(&source);
    let mk_target = |kind: u8| -> Map<T24, T24> {
        let mut t: Map<T24, T24> = match kind {
            0 => Map::with_hasher_in(bh_t, crate::ckalloc::CkAlloc { id: 9 }),
            _ => Map::with_capacity_and_hasher_in(20, bh_t, crate::ckalloc::CkAlloc { id: 9 }),
        };
        if kind != 0 {
            for i in 0..6u32 {
                t.insert(T24::make(900 + i, 9), T24::make(9, 9));
            }
            t.remove(&KeyRef(901));
        }
        t
    };
    for kind in 0..2u8 {
        for class in [Class::Clone, Class::Alloc, Class::Drop] {
            // dry run: how often is the class invoked?
            fuse::reset_counts();
            let mut t = mk_target(kind);
            t.clone_from(&source);
            let n_c = fuse::count(class);
            drop(t);
            for k in 0..n_c.min(10) {
                let what = format!("clone_from(source of 2^{} buckets, {} elements) into target kind {} with fault ({},{})", lg, n_src, kind, class.name(), k);
                let mut t = mk_target(kind);
                fuse::reset_counts();
                fuse::arm(class, k);
                let r = catch(|| t.clone_from(&source));
                let fired = r.is_err();
                fuse::disarm();
                c.evaluations += 1;
                if fired {
                    c.bump(&format!("fired_{}", class.name()));
                    c.sig_parts(&[444, lg as u64, kind as u64, class as u64, k.min(3)]);
                    if class == Class::Drop {
                        c.leak_ok = true;
                    }
                }
                // the target is a valid collection: structure, len == yielded == found by its own lookups
                let td = t.verif_dump();
                validate::check_safety(&td, &what);
                let yielded: Vec<u32> = t
                    .iter()
                    .map(|(k, v)| {
                        k.check();
                        v.check();
                        k.id()
                    })
                    .collect();
                crate::check!(yielded.len() == t.len(), "{}: the target has len() {} but yields {} entries", what, t.len(), yielded.len());
                let found = yielded.iter().filter(|id| t.get(&KeyRef(**id)).is_some()).count();
                crate::check!(found == yielded.len(), "{}: the target yields {} entries but finds only {}", what, yielded.len(), found);
                if !fired {
                    crate::check!(t == source, "{}: completed clone_from, but target != source", what);
                }
                // reuse, then drop
                let use_r = catch(|| {
                    t.insert(T24::make(10, 8), T24::make(8, 8));
                    crate::check!(t.contains_key(&KeyRef(10)), "{}: insert(10) after the fault is not found", what);
                    t.clear();
                });
                if let Err(p) = use_r {
                    crate::viol!("{}: using the target after the caught panic panicked: {}", what, payload_str(&p));
                }
                drop(t);
            }
        }
    }
    crate::check!(contents(&source) == src_before, "clone_from changed its source");
    let sd = source.verif_dump();
    validate::check_safety(&sd, "clone_from source (2^lg buckets)");
}

pub fn run(c: &mut Ctx) {
    c.run_scenarios(|c, idx, rng| {
        if crate::util::mix(idx ^ 0x4c0) % 150 == 0 && !crate::util::slow_lane() {
            huge_clone_from_faults(c, rng);
            return;
        }
        // one scenario in five enumerates faults on a HashSet or a HashTable
        match crate::util::mix(idx) % 10 {
            0 => other::set_scenario::<crate::elem::T24>(c, rng),
            1 => {
                if rng.chance(1, 2) {
                    other::table_scenario::<crate::elem::T24>(c, rng)
                } else {
                    other::table_scenario::<crate::elem::P8>(c, rng)
                }
            }
            _ => {
                let pair = C04_PAIRS[((crate::util::mix(idx) / 10) % C04_PAIRS.len() as u64) as usize];
                for_pair!(pair, scenario(c, idx, rng));
            }
        }
    });
}

fn contents<K: Elem, V: Elem>(m: &Map<K, V>) -> Vec<(u32, u16, u32, u16)> {
    let mut v: Vec<_> = m.iter().map(|(k, v)| (k.id(), k.gen(), v.id(), v.gen())).collect();
    v.sort();
    v
}

pub fn scenario<K: Elem, V: Elem>(c: &mut Ctx, idx: u64, rng: &mut Rng) {
    let recipe = RECIPES[((crate::util::mix(idx) / 60) % RECIPES.len() as u64) as usize];
    // saturation needs clustered hashes to leave tombstones
    let plan = match recipe {
        Recipe::Layout => *rng.pick(&[Plan::Ident, Plan::Ident, Plan::IdentOneTag]),
        Recipe::Saturated | Recipe::SaturatedRandom | Recipe::Tombstoned if rng.chance(3, 4) => *rng.pick(&[Plan::Ident, Plan::IdentOneTag, Plan::Zero, Plan::SamePos, Plan::Palette(1, 3), Plan::Palette(3, 1), Plan::Palette(4, 4), Plan::Stride, Plan::Tail]),
        _ => pick_plan(rng),
    };
    let spec = StateSpec { plan, salt: rng.next(), recipe, seed: rng.next(), size: rng.below(1000) as u32 };
    let probe: MapDrv<K, V> = build_state(&spec, c);
    let pd = probe.map.verif_dump();
    let pf = validate::check_safety(&pd, "C04 state");
    let saturated = pd.growth_left == 0 && pf.deleted > 0;
    let ops_per_state = if c.is_miri() { 1 } else { 4 };
    let mut ops = Vec::new();
    for _ in 0..ops_per_state {
        ops.push(pick_op(rng, &probe));
    }
    drop(probe);
    let mut desc = Json::obj();
    desc.set("collection", Json::s("HashMap"));
    desc.set("key", Json::s(K::NAME));
    desc.set("value", Json::s(V::NAME));
    desc.set("plan", Json::s(plan.name()));
    desc.set("recipe", Json::s(format!("{:?}", recipe)));
    desc.set("state", Json::s(format!("buckets {} items {} deleted {} growth_left {}", pf.buckets, pf.full, pf.deleted, pd.growth_left)));
    desc.set("ops", Json::Arr(ops.iter().map(|o| Json::s(format!("{:?}", o))).collect()));
    c.describe(desc);
    if saturated {
        c.bump("states_saturated");
    }
    if pf.full == pf.capacity && pf.buckets > 1 && pf.deleted == 0 {
        c.bump("states_full");
    }
    if pf.deleted > 0 {
        c.bump("states_with_tombstones");
    }
    for op in &ops {
        enumerate_faults::<K, V>(c, &spec, op, rng);
        if crate::util::has_violation() {
            return;
        }
    }
}

fn enumerate_faults<K: Elem, V: Elem>(c: &mut Ctx, spec: &StateSpec, op: &FOp, rng: &mut Rng) {
    // ---- dry run: count callback invocations per class and classify the path taken ----
    let mut d: MapDrv<K, V> = build_state(spec, c);
    let mut other = if let FOp::CloneFrom(k) = op { Some(build_other(*k, &d)) } else { None };
    let before = d.map.verif_dump();
    let bf = validate::check_safety(&before, "C04 pre");
    let ev0 = ckalloc::events_len();
    fuse::reset_counts();
    let r = catch(|| apply(op, &mut d, &mut other));
    let counts = fuse::counts();
    if let Err(p) = r {
        // documented panics (get_many_mut duplicates) are fine; anything else is a violation
        let msg = payload_str(&p);
        if !msg.contains("duplicate keys") {
            crate::viol!("C04 dry run of {:?} panicked: {}", op, msg);
            return;
        }
    }
    let evs = ckalloc::events_since(ev0);
    let allocated = evs.iter().any(|e| e.kind == EvKind::Alloc);
    let after = d.map.verif_dump();
    let af = validate::check_safety(&after, "C04 dry post");
    let path = if allocated && after.bucket_mask != before.bucket_mask {
        "resize"
    } else if bf.deleted > 0 && af.deleted == 0 && after.bucket_mask == before.bucket_mask && !allocated && af.full >= bf.full && af.full > 0 {
        "rehash_in_place"
    } else if allocated {
        "alloc"
    } else {
        "plain"
    };
    c.bump(&format!("dry_path_{}", path));
    drop(other);
    drop(d);
    // ---- enumerate (class, k) ----
    for class in CLASSES {
        let n = counts[class as usize];
        if n == 0 {
            continue;
        }
        let ks: Vec<u64> = if n <= 10 || c.thorough() && n <= 40 {
            (0..n).collect()
        } else {
            // first four, last two, and four sampled in between
            let mut v: Vec<u64> = vec![0, 1, 2, 3, n - 2, n - 1];
            for _ in 0..4 {
                v.push(rng.range(4, n - 3));
            }
            v.sort();
            v.dedup();
            v
        };
        for k in ks {
            one_fault::<K, V>(c, spec, op, class, k, path);
            if crate::util::has_violation() {
                return;
            }
        }
    }
}

fn one_fault<K: Elem, V: Elem>(c: &mut Ctx, spec: &StateSpec, op: &FOp, class: Class, k: u64, path: &str) {
    c.evaluations += 1;
    let mut d: MapDrv<K, V> = build_state(spec, c);
    let mut other = if let FOp::CloneFrom(kind) = op { Some(build_other(*kind, &d)) } else { None };
    let pre = contents(&d.map);
    let pre_other = other.as_ref().map(|t| t.len());
    let live_before = elem::live_now();
    let ev0 = ckalloc::events_len();
    c.log(format!("fault case: op {:?} fuse ({},{}) path {}", op, class.name(), k, path));
    fuse::reset_counts();
    fuse::arm(class, k);
    let r = catch(|| apply(op, &mut d, &mut other));
    let fired = !fuse::is_armed();
    fuse::disarm();
    let what = format!("{} fuse ({},{}) [{}x{} {} {:?}]", op.kind(), class.name(), k, K::NAME, V::NAME, spec.plan.name(), spec.recipe);
    match &r {
        Ok(()) => {
            if fired && !matches!(op, FOp::ExtractIfResume(_)) {
                crate::viol!("{}: the injected panic was swallowed by the library", what);
            }
        }
        Err(p) => {
            if !is_injected(p) {
                let msg = payload_str(p);
                if !msg.contains("duplicate keys") {
                    crate::viol!("{}: a different panic came out: {}", what, msg);
                }
            }
        }
    }
    if !fired {
        c.bump("fuse_not_reached");
        // the run is still a valid (fault-free) execution; fall through to the checks
    } else {
        c.bump("fuse_fired");
        let dropglue = (K::TRACKED || V::TRACKED) as u64;
        c.sig_parts(&[crate::ctx::prop_salt(op.kind()), class as u64, crate::ctx::prop_salt(path), dropglue, crate::ctx::prop_salt(&format!("{:?}", spec.recipe))]);
        c.bump(&format!("fired_{}", class.name()));
        c.bump(&format!("fired_path_{}", path));
        if !(K::TRACKED || V::TRACKED) {
            c.bump("fired_no_drop_glue");
        }
    }
    // ---- post-conditions ----
    let evs = ckalloc::events_since(ev0);
    let grew = evs.iter().any(|e| e.kind == EvKind::Alloc);
    let lawful = spec.plan.is_lawful();
    for (name, m) in [("map", Some(&d.map)), ("clone_from target", other.as_ref())] {
        let Some(m) = m else { continue };
        let dump = m.verif_dump();
        validate::check_safety(&dump, &format!("{} ({} after unwinding)", what, name));
        let len = m.len();
        let mut yielded = 0usize;
        let mut ids = Vec::new();
        for (kk, vv) in m.iter() {
            kk.check();
            vv.check();
            yielded += 1;
            ids.push(kk.id());
        }
        crate::check!(len == yielded, "{}: {} len() = {} but iter() yields {}", what, name, len, yielded);
        if lawful {
            let mut found = 0usize;
            ids.sort();
            ids.dedup();
            crate::check!(ids.len() == yielded, "{}: {} yields a key twice", what, name);
            for id in &ids {
                if m.get(&KeyRef(*id)).is_some() {
                    found += 1;
                }
            }
            crate::check!(found == len, "{}: {} len() = {} but only {} of its keys are found by get()", what, name, len, found);
        }
    }
    // contents: nothing but what was there or what the operation brings in
    let post = contents(&d.map);
    if fired && matches!(class, Class::Hash | Class::BuildHasher) && grew && op.single_insert() {
        // "a hasher panic while the table is being grown into a new allocation leaves the contents unchanged"
        if post != pre {
            crate::viol!(
                "{}: hasher panicked while growing into a new allocation, but contents changed: {} entries before, {} after",
                what,
                pre.len(),
                post.len()
            );
        }
        c.bump("grow_hash_panic_contents_checked");
    }
    if fired && !matches!(op, FOp::DropMap | FOp::CloneFrom(_) | FOp::IntoIterForEach(_)) {
        // every element that is still present must be an original (or carry the operation's own marker gen 7)
        for e in &post {
            let orig = pre.iter().any(|p| p.0 == e.0 && p.1 == e.1);
            if !orig && e.1 != 7 && K::HAS_GEN && e.1 != crate::plan::INTO_GEN {
                crate::viol!("{}: after unwinding the map holds an entry that was neither there before nor inserted by the operation: {:?}", what, e);
            }
        }
    }
    if let (Some(t), Some(_)) = (other.as_ref(), pre_other) {
        // clone_from target: whatever it holds must be checksummed live elements (checked above) and consistent:
        // a valid collection, len() == number yielded == number its own lookups find
        let td = t.verif_dump();
        validate::check_safety(&td, &format!("{} (clone_from target)", what));
        let yielded: Vec<u32> = t.iter().map(|(k, v)| {
            k.check();
            v.check();
            k.id()
        }).collect();
        crate::check!(yielded.len() == t.len(), "{}: the clone_from target has len() {} but yields {} entries", what, t.len(), yielded.len());
        if d.lawful {
            let found = yielded.iter().filter(|id| t.get(&KeyRef(**id)).is_some()).count();
            crate::check!(found == yielded.len(), "{}: the clone_from target yields {} entries but its own lookups find only {} of them (len() = {})", what, yielded.len(), found, t.len());
        }
    }
    // ---- keep using the collection, then drop it ----
    let use_r = catch(|| {
        let base = 3000u32.min(K::ID_SPACE - 1);
        for i in 0..4u32 {
            d.map.insert(K::make((base + i) % K::ID_SPACE, 8), V::make(8, 8));
        }
        let n = d.map.iter().count();
        crate::check!(n == d.map.len(), "{}: after re-use len {} != iter count {}", what, d.map.len(), n);
        let dd = d.map.verif_dump();
        validate::check_safety(&dd, &format!("{} (after re-use)", what));
        d.map.clear();
        crate::check!(d.map.is_empty(), "{}: clear() after re-use leaves len {}", what, d.map.len());
    });
    if let Err(p) = use_r {
        crate::viol!("{}: using the collection after the caught panic panicked: {}", what, payload_str(&p));
    }
    let dr = catch(move || {
        drop(other);
        drop(d);
    });
    if let Err(p) = dr {
        crate::viol!("{}: dropping the collection after the caught panic panicked: {}", what, payload_str(&p));
    }
    // ---- conservation (M2 + M1) ----
    let live_after = elem::live_now();
    let blocks = ckalloc::counters().live_blocks;
    let leak_allowed = fired && class == Class::Drop;
    if !leak_allowed {
        if live_after != live_before.min(live_after) || live_after != 0 {
            crate::viol!(
                "{}: {} element(s) neither present nor dropped after the collection was dropped (leak without a destructor panic); serials +{:?}",
                what,
                live_after,
                elem::reg_live_serials(6)
            );
        }
        if blocks != 0 {
            crate::viol!("{}: {} table block(s) leaked although no destructor panicked", what, blocks);
        }
    } else {
        if live_after > 0 || blocks > 0 {
            c.bump("drop_panic_leaks_observed");
        }
        // start the next case from a clean ledger
        elem::reg_reset();
        ckalloc::forget_leaks();
    }
}

// ---------------------------------------------------------------------------------------------
// HashSet and HashTable fault enumeration (smaller operation sets; the post-conditions are the same)

mod other {
    use super::*;
    use crate::states::{build, Coll, SetC, Spec, TableC};
    use crate::tabledrv::hasher_of;

    #[derive(Clone, Debug)]
    pub enum SOp {
        Insert(u32),
        Replace(u32),
        GetOrInsertWith(u32),
        Take(u32),
        Retain(u64),
        Reserve(usize),
        ShrinkToFit,
        Clone,
        CloneFrom,
        UnionCollect,
        OrAssign,
        AndAssign,
        XorAssign,
        SubAssign,
        Extend(Vec<u32>),
        Drop,
        // table-only
        TInsertUnique(u32),
        TEntryOrInsert(u32),
        TEntryRemoveReinsert(u32),
        TFindEntryRemove(u32),
    }

    fn apply_set<T: Elem>(op: &SOp, s: &mut SetC<T>, other: &SetC<T>, target: &mut Option<SetC<T>>) {
        match op {
            SOp::Insert(id) => {
                s.0.insert(T::make(*id, 7));
            }
            SOp::Replace(id) => {
                let _ = s.0.replace(T::make(*id, 7));
            }
            SOp::GetOrInsertWith(id) => {
                let _ = s.0.get_or_insert_with(&KeyRef(*id), |q| {
                    fuse::tick(Class::Closure);
                    T::make(q.0, 7)
                });
            }
            SOp::Take(id) => {
                let _ = s.0.take(&KeyRef(*id));
            }
            SOp::Retain(salt) => s.0.retain(|k| {
                fuse::tick(Class::Closure);
                pred(*salt, k.id())
            }),
            SOp::Reserve(n) => s.0.reserve(*n),
            SOp::ShrinkToFit => s.0.shrink_to_fit(),
            SOp::Clone => drop(s.0.clone()),
            SOp::CloneFrom => {
                if let Some(t) = target.as_mut() {
                    t.0.clone_from(&s.0);
                }
            }
            SOp::UnionCollect => {
                let u: crate::states::Set<T> = s.0.union(&other.0).cloned().collect();
                drop(u);
            }
            SOp::OrAssign => s.0 |= &other.0,
            SOp::AndAssign => s.0 &= &other.0,
            SOp::XorAssign => s.0 ^= &other.0,
            SOp::SubAssign => s.0 -= &other.0,
            SOp::Extend(ids) => {
                let items: Vec<T> = ids.iter().map(|i| T::make(*i, 7)).collect();
                s.0.extend(TickIter { inner: items.into_iter() });
            }
            SOp::Drop => {
                let bh = s.bh();
                let old = std::mem::replace(&mut s.0, crate::states::Set::with_hasher_in(bh, CkAlloc));
                drop(old);
            }
            _ => {}
        }
    }

    fn apply_table<E: Elem>(op: &SOp, t: &mut TableC<E>, target: &mut Option<TableC<E>>) {
        let bh = t.1;
        let hs = hasher_of::<E>(bh.plan, bh.salt);
        match op {
            SOp::TInsertUnique(id) => {
                t.0.insert_unique(bh.hash_of(*id), E::make(*id, 7), hs);
            }
            SOp::TEntryOrInsert(id) => {
                let id = *id;
                let _ = t.0
                    .entry(
                        bh.hash_of(id),
                        |e| {
                            fuse::tick(Class::Eq);
                            e.id() == id
                        },
                        hs,
                    )
                    .or_insert_with(|| {
                        fuse::tick(Class::Closure);
                        E::make(id, 7)
                    });
            }
            SOp::TEntryRemoveReinsert(id) => {
                let id = *id;
                if let Ok(o) = t.0.find_entry(bh.hash_of(id), |e| e.id() == id) {
                    let (old, vac) = o.remove();
                    drop(old);
                    vac.insert(E::make(id, 7));
                }
            }
            SOp::TFindEntryRemove(id) => {
                let id = *id;
                if let Ok(o) = t.0.find_entry(bh.hash_of(id), |e| {
                    fuse::tick(Class::Eq);
                    e.id() == id
                }) {
                    let _ = o.remove();
                }
            }
            SOp::Retain(salt) => t.0.retain(|k| {
                fuse::tick(Class::Closure);
                pred(*salt, k.id())
            }),
            SOp::Reserve(n) => t.0.reserve(*n, hs),
            SOp::ShrinkToFit => t.0.shrink_to_fit(hs),
            SOp::Clone => drop(t.0.clone()),
            SOp::CloneFrom => {
                if let Some(x) = target.as_mut() {
                    x.0.clone_from(&t.0);
                }
            }
            SOp::Drop => {
                let old = std::mem::replace(&mut t.0, crate::states::Table::new_in(CkAlloc));
                drop(old);
            }
            _ => {}
        }
    }

    fn post<C: Coll>(c: &mut Ctx, col: &C, what: &str) {
        col.validate(what);
        let n = col.contents().len();
        crate::check!(n == col.len(), "{}: len() = {} but the collection yields {}", what, col.len(), n);
        let _ = c;
    }

    fn settle(what: &str, fired: bool, class: Class) {
        let live = elem::live_now();
        let blocks = ckalloc::counters().live_blocks;
        if fired && class == Class::Drop {
            elem::reg_reset();
            ckalloc::forget_leaks();
            return;
        }
        crate::check!(live == 0, "{}: {} element(s) neither present nor dropped (leak without a destructor panic)", what, live);
        crate::check!(blocks == 0, "{}: {} block(s) leaked although no destructor panicked", what, blocks);
    }

    pub fn set_scenario<T: Elem>(c: &mut Ctx, rng: &mut Rng) {
        let r1 = crate::states::RECIPES[rng.usize_below(crate::states::RECIPES.len())];
        let r2 = crate::states::RECIPES[rng.usize_below(crate::states::RECIPES.len())];
        let spec = Spec::random(rng, r1);
        let ospec = Spec::random(rng, r2);
        let probe: SetC<T> = build(&spec);
        let ids: Vec<u32> = probe.contents().iter().map(|e| e.0).collect();
        let cap = probe.capacity();
        drop(probe);
        let any = |rng: &mut Rng| -> u32 {
            if !ids.is_empty() && rng.chance(1, 3) {
                ids[rng.usize_below(ids.len())]
            } else {
                rng.below((ids.len() as u64 + 8) * 2) as u32 % T::ID_SPACE
            }
        };
        let ops: Vec<SOp> = (0..3)
            .map(|_| match rng.below(16) {
                0 | 1 | 2 => SOp::Insert(any(rng)),
                3 => SOp::Replace(any(rng)),
                4 => SOp::GetOrInsertWith(any(rng)),
                5 => SOp::Take(any(rng)),
                6 => SOp::Retain(rng.next()),
                7 => SOp::Reserve(*rng.pick(&[1usize, cap + 1, 3 * cap + 5])),
                8 => SOp::ShrinkToFit,
                9 => SOp::Clone,
                10 => SOp::CloneFrom,
                11 => SOp::UnionCollect,
                12 => [SOp::OrAssign, SOp::AndAssign, SOp::XorAssign, SOp::SubAssign][rng.usize_below(4)].clone(),
                13 => SOp::Extend((0..rng.below(6) + 1).map(|_| any(rng)).collect()),
                _ => SOp::Drop,
            })
            .collect();
        let mut desc = Json::obj();
        desc.set("collection", Json::s(format!("HashSet<{}>", T::NAME)));
        desc.set("state", Json::s(spec.describe()));
        desc.set("other", Json::s(ospec.describe()));
        desc.set("ops", Json::Arr(ops.iter().map(|o| Json::s(format!("{:?}", o))).collect()));
        c.describe(desc);
        for op in &ops {
            // dry run
            let mut s: SetC<T> = build(&spec);
            let other: SetC<T> = build(&ospec);
            let mut target = if matches!(op, SOp::CloneFrom) { Some(build::<SetC<T>>(&ospec)) } else { None };
            fuse::reset_counts();
            if let Err(p) = catch(|| apply_set(op, &mut s, &other, &mut target)) {
                crate::viol!("C04 set dry run of {:?} panicked: {}", op, payload_str(&p));
                return;
            }
            let counts = fuse::counts();
            drop(target);
            drop(s);
            drop(other);
            for class in CLASSES {
                let n = counts[class as usize];
                let ks: Vec<u64> = if n <= 8 { (0..n).collect() } else { vec![0, 1, 2, n / 2, n - 2, n - 1] };
                for k in ks {
                    c.evaluations += 1;
                    let mut s: SetC<T> = build(&spec);
                    let other: SetC<T> = build(&ospec);
                    let mut target = if matches!(op, SOp::CloneFrom) { Some(build::<SetC<T>>(&ospec)) } else { None };
                    fuse::reset_counts();
                    fuse::arm(class, k);
                    let r = catch(|| apply_set(op, &mut s, &other, &mut target));
                    let fired = !fuse::is_armed();
                    fuse::disarm();
                    let what = format!("HashSet<{}> {:?} fuse ({},{}) [{}]", T::NAME, op, class.name(), k, spec.describe());
                    if let Err(p) = &r {
                        crate::check!(is_injected(p), "{}: a different panic came out: {}", what, payload_str(p));
                    } else if fired {
                        crate::viol!("{}: the injected panic was swallowed", what);
                    }
                    if fired {
                        c.bump("fuse_fired");
                        c.bump(&format!("fired_{}", class.name()));
                        c.bump("fired_on_set_or_table");
                        c.sig_parts(&[7000, crate::ctx::prop_salt(&format!("{:?}", std::mem::discriminant(op))), class as u64, T::TRACKED as u64]);
                    }
                    post(c, &s, &what);
                    if let Some(t) = target.as_ref() {
                        post(c, t, &what);
                    }
                    let r2 = catch(|| {
                        s.put(3 % T::ID_SPACE, 8);
                        s.clear();
                    });
                    crate::check!(r2.is_ok(), "{}: re-using the set after the caught panic panicked", what);
                    drop(target);
                    drop(s);
                    drop(other);
                    settle(&what, fired, class);
                    if crate::util::has_violation() {
                        return;
                    }
                }
            }
        }
    }

    pub fn table_scenario<E: Elem>(c: &mut Ctx, rng: &mut Rng) {
        let r1 = crate::states::RECIPES[rng.usize_below(crate::states::RECIPES.len())];
        let r2 = crate::states::RECIPES[rng.usize_below(crate::states::RECIPES.len())];
        let spec = Spec::random(rng, r1);
        let ospec = Spec::random(rng, r2);
        // the clone_from target shares the source's hash plan (a HashTable has no hasher of its own:
        // after clone_from its elements are the source's, hashed by the source's plan)
        let ospec = Spec { plan: spec.plan, salt: spec.salt, ..ospec };
        let probe: TableC<E> = build(&spec);
        let ids: Vec<u32> = probe.contents().iter().map(|e| e.0).collect();
        let cap = probe.capacity();
        drop(probe);
        let any = |rng: &mut Rng| -> u32 {
            if !ids.is_empty() && rng.chance(1, 3) {
                ids[rng.usize_below(ids.len())]
            } else {
                rng.below((ids.len() as u64 + 8) * 2) as u32 % E::ID_SPACE
            }
        };
        let ops: Vec<SOp> = (0..3)
            .map(|_| match rng.below(12) {
                0 | 1 | 2 => SOp::TInsertUnique(any(rng)),
                3 | 4 => SOp::TEntryOrInsert(any(rng)),
                5 => SOp::TEntryRemoveReinsert(any(rng)),
                6 => SOp::TFindEntryRemove(any(rng)),
                7 => SOp::Retain(rng.next()),
                8 => SOp::Reserve(*rng.pick(&[1usize, cap + 1, 3 * cap + 5])),
                9 => SOp::ShrinkToFit,
                10 => [SOp::Clone, SOp::CloneFrom][rng.usize_below(2)].clone(),
                _ => SOp::Drop,
            })
            .collect();
        let mut desc = Json::obj();
        desc.set("collection", Json::s(format!("HashTable<{}>", E::NAME)));
        desc.set("state", Json::s(spec.describe()));
        desc.set("ops", Json::Arr(ops.iter().map(|o| Json::s(format!("{:?}", o))).collect()));
        c.describe(desc);
        for op in &ops {
            let mut t: TableC<E> = build(&spec);
            let mut target = if matches!(op, SOp::CloneFrom) { Some(build::<TableC<E>>(&ospec)) } else { None };
            fuse::reset_counts();
            if let Err(p) = catch(|| apply_table(op, &mut t, &mut target)) {
                crate::viol!("C04 table dry run of {:?} panicked: {}", op, payload_str(&p));
                return;
            }
            let counts = fuse::counts();
            drop(target);
            drop(t);
            for class in CLASSES {
                let n = counts[class as usize];
                let ks: Vec<u64> = if n <= 8 { (0..n).collect() } else { vec![0, 1, 2, n / 2, n - 2, n - 1] };
                for k in ks {
                    c.evaluations += 1;
                    let mut t: TableC<E> = build(&spec);
                    let mut target = if matches!(op, SOp::CloneFrom) { Some(build::<TableC<E>>(&ospec)) } else { None };
                    fuse::reset_counts();
                    fuse::arm(class, k);
                    let r = catch(|| apply_table(op, &mut t, &mut target));
                    let fired = !fuse::is_armed();
                    fuse::disarm();
                    let what = format!("HashTable<{}> {:?} fuse ({},{}) [{}]", E::NAME, op, class.name(), k, spec.describe());
                    if let Err(p) = &r {
                        crate::check!(is_injected(p), "{}: a different panic came out: {}", what, payload_str(p));
                    } else if fired {
                        crate::viol!("{}: the injected panic was swallowed", what);
                    }
                    if fired {
                        c.bump("fuse_fired");
                        c.bump(&format!("fired_{}", class.name()));
                        c.bump("fired_on_set_or_table");
                        c.sig_parts(&[8000, crate::ctx::prop_salt(&format!("{:?}", std::mem::discriminant(op))), class as u64, E::TRACKED as u64]);
                    }
                    post(c, &t, &what);
                    if let Some(x) = target.as_ref() {
                        post(c, x, &what);
                    }
                    let r2 = catch(|| {
                        t.put(3 % E::ID_SPACE, 8);
                        t.clear();
                    });
                    crate::check!(r2.is_ok(), "{}: re-using the table after the caught panic panicked", what);
                    drop(target);
                    drop(t);
                    settle(&what, fired, class);
                    if crate::util::has_violation() {
                        return;
                    }
                }
            }
        }
    }
}
