//! C11: clone is equal and independent; == ignores layout, capacity and hasher state.

use crate::ctx::Ctx;
use crate::elem::{self, Elem, B1, L200, P8, T24, Z};
use crate::plan::KeyRef;
use crate::states::{build, Coll, MapC, SetC, Spec, TableC, RECIPES};
use crate::util::{Json, Rng};

fn tracked_per<K: Elem, V: Elem>() -> u64 {
    K::TRACKED as u64 + V::TRACKED as u64
}

fn map_pair<K: Elem, V: Elem>(c: &mut Ctx, tspec: &Spec, sspec: &Spec, rng: &mut Rng) {
    // source and target live on different allocator instances: every block must go back to the instance it came from
    crate::ckalloc::set_current_id(1);
    let s: MapC<K, V> = build(sspec);
    crate::ckalloc::set_current_id(2);
    let mut t: MapC<K, V> = build(tspec);
    crate::ckalloc::set_current_id(0);
    let sf = s.validate("C11 source");
    let tf = t.validate("C11 target");
    let what = format!("HashMap<{},{}> target [{}] <- source [{}]", K::NAME, V::NAME, tspec.describe(), sspec.describe());
    let src_before = s.contents();
    let (slen, tlen) = (s.len() as u64, t.len() as u64);
    let path = if sf.class == 0 {
        0
    } else if sf.buckets == tf.buckets {
        1
    } else {
        2
    };
    c.evaluations += 1;
    c.sig_parts(&[1, path, tf.class as u64, (tf.deleted > 0) as u64, (sf.deleted > 0) as u64, (slen > tlen) as u64 + 2 * (slen == tlen) as u64, crate::ctx::prop_salt(K::NAME)]);
    c.bump(["clone_from_source_unallocated", "clone_from_same_buckets", "clone_from_different_buckets"][path as usize]);
    let r0 = elem::reg_counters();
    let clone_calls0 = crate::fuse::count(crate::fuse::Class::Clone);
    if rng.chance(1, 4) {
        // clone() instead of clone_from
        let fresh = MapC(s.0.clone());
        drop(std::mem::replace(&mut t, fresh));
    } else {
        t.0.clone_from(&s.0);
    }
    let r1 = elem::reg_counters();
    let per = tracked_per::<K, V>();
    let clone_calls = crate::fuse::count(crate::fuse::Class::Clone) - clone_calls0;
    let per_calls = K::COUNTS_CLONE as u64 + V::COUNTS_CLONE as u64;
    crate::check!(clone_calls == slen * per_calls, "{}: Clone::clone was called {} times for {} entries ({} expected): the copy does not hold independently made clones", what, clone_calls, slen, slen * per_calls);
    crate::check!(r1.cloned - r0.cloned == slen * per, "{}: {} tracked clones were made for {} entries ({} expected)", what, r1.cloned - r0.cloned, slen, slen * per);
    crate::check!(r1.dropped - r0.dropped == tlen * per, "{}: {} old target elements dropped, {} expected (each exactly once)", what, r1.dropped - r0.dropped, tlen * per);
    // equal, both directions, and by contents
    crate::check!(t.0 == s.0, "{}: target != source after cloning", what);
    crate::check!(s.0 == t.0, "{}: source != target after cloning (== is not symmetric)", what);
    crate::check!(t.contents() == src_before, "{}: clone holds different contents", what);
    for (id, _) in src_before.iter().take(200) {
        crate::check!(t.0.get(&KeyRef(*id)).is_some(), "{}: key {} of the source cannot be found in the clone", what, id);
    }
    t.validate(&what);
    // independence: changing the clone does not show in the source
    let victim = src_before.first().map(|e| e.0);
    if let Some(id) = victim {
        t.0.remove(&KeyRef(id));
    }
    let fresh_id = 4000u32.min(K::ID_SPACE - 1);
    t.0.insert(K::make(fresh_id, 1), V::make(1, 1));
    for v in t.0.values_mut() {
        *v = V::make(2 % V::ID_SPACE, 2);
    }
    crate::check!(s.contents() == src_before, "{}: mutating the clone changed the source", what);
    if let Some(id) = victim {
        crate::check!(s.0.contains_key(&KeyRef(id)), "{}: removing key {} from the clone removed it from the source", what, id);
    }
    let clone_now = t.contents();
    // ... and vice versa
    let mut s = s;
    s.0.clear();
    crate::check!(t.contents() == clone_now, "{}: clearing the source changed the clone", what);
    t.validate(&what);
    drop(s);
    drop(t);
}

fn set_pair<T: Elem>(c: &mut Ctx, tspec: &Spec, sspec: &Spec, _rng: &mut Rng) {
    crate::ckalloc::set_current_id(3);
    let s: SetC<T> = build(sspec);
    crate::ckalloc::set_current_id(4);
    let mut t: SetC<T> = build(tspec);
    crate::ckalloc::set_current_id(0);
    let what = format!("HashSet<{}> target [{}] <- source [{}]", T::NAME, tspec.describe(), sspec.describe());
    let before = s.contents();
    c.evaluations += 1;
    c.sig_parts(&[2, s.len().min(3) as u64, t.len().min(3) as u64, crate::ctx::prop_salt(T::NAME)]);
    t.0.clone_from(&s.0);
    crate::check!(t.0 == s.0 && s.0 == t.0, "{}: clone_from result is not == source (both directions)", what);
    crate::check!(t.contents() == before, "{}: clone holds different contents", what);
    t.validate(&what);
    t.0.clear();
    crate::check!(s.contents() == before, "{}: clearing the clone changed the source", what);
}

fn table_clone<E: Elem>(c: &mut Ctx, sspec: &Spec) {
    let s: TableC<E> = build(sspec);
    let what = format!("HashTable<{}> clone of [{}]", E::NAME, sspec.describe());
    let before = s.contents();
    c.evaluations += 1;
    c.sig_parts(&[3, s.len().min(3) as u64, crate::ctx::prop_salt(E::NAME)]);
    let r0 = elem::reg_counters();
    let mut t = TableC(s.0.clone(), s.1);
    let r1 = elem::reg_counters();
    crate::check!(r1.cloned - r0.cloned == s.len() as u64 * E::TRACKED as u64, "{}: {} clones for {} elements", what, r1.cloned - r0.cloned, s.len());
    crate::check!(t.contents() == before, "{}: clone holds different contents", what);
    t.validate(&what);
    for (id, _) in before.iter().take(100) {
        crate::check!(t.has(*id), "{}: element {} of the source cannot be found in the clone", what, id);
    }
    t.clear();
    crate::check!(s.contents() == before, "{}: clearing the clone changed the source", what);
}

/// == between two maps/sets holding the same pairs, built by different histories, capacities and hashers.
fn eq_case<K: Elem, V: Elem>(c: &mut Ctx, a_spec: &Spec, b_spec: &Spec, rng: &mut Rng) {
    let a: MapC<K, V> = build(a_spec);
    let mut b: MapC<K, V> = build(b_spec); // different recipe, plan and salt: different layout and hasher state
    let what = format!("HashMap<{},{}> == : a [{}] vs b [{}]", K::NAME, V::NAME, a_spec.describe(), b_spec.describe());
    c.evaluations += 1;
    c.sig_parts(&[4, a.len().min(4) as u64, b.len().min(4) as u64, (a_spec.plan == b_spec.plan) as u64]);
    let ac = a.contents();
    let bc = b.contents();
    let same_keys = ac.iter().map(|e| e.0).eq(bc.iter().map(|e| e.0));
    // values built by recipes are a function of the key id, so same key sets mean same pairs
    crate::check!((a.0 == b.0) == same_keys, "{}: a == b is {} but the contents are {}", what, a.0 == b.0, if same_keys { "equal" } else { "different" });
    crate::check!((a.0 == b.0) == (b.0 == a.0), "{}: == is not symmetric", what);
    crate::check!((a.0 != b.0) == !(a.0 == b.0), "{}: != is not the negation of ==", what);
    // make b hold exactly a's pairs through a different history
    b.0.clear();
    let mut order = ac.clone();
    for i in (1..order.len()).rev() {
        order.swap(i, rng.usize_below(i + 1));
    }
    // insert extra keys first and remove them again (tombstones), then a's keys in another order
    for j in 0..(order.len() as u32 / 2 + 3) {
        b.put((7000 + j) % K::ID_SPACE, 3);
    }
    for (id, g) in &order {
        b.put(*id, *g);
    }
    for j in 0..(order.len() as u32 / 2 + 3) {
        let id = (7000 + j) % K::ID_SPACE;
        if !ac.iter().any(|e| e.0 == id) {
            b.del(id);
        }
    }
    if b.contents().iter().map(|e| e.0).eq(ac.iter().map(|e| e.0)) {
        crate::check!(a.0 == b.0 && b.0 == a.0, "{}: maps with the same pairs (different history, capacity {} vs {}, hashers {:?} vs {:?}) are not ==", what, a.capacity(), b.capacity(), a_spec.plan, b_spec.plan);
        crate::check!(!(a.0 != b.0) && !(b.0 != a.0), "{}: maps with the same pairs are !=", what);
        c.bump("eq_same_contents_checked");
        // one value differs -> not equal, in both directions
        if let Some((id, _)) = ac.first() {
            if let Some(v) = b.0.get_mut(&KeyRef(*id)) {
                let nid = (v.id() + 1) % V::ID_SPACE;
                if nid != v.id() {
                    *v = V::make(nid, 0);
                    crate::check!(a.0 != b.0 && b.0 != a.0, "{}: maps differing in the value of key {} compare equal", what, id);
                }
            }
        }
    }
}

/// `==` must depend on the contents only, also when both operands are the same object: a map holding a value that is
/// not equal to itself (NaN) is not equal to anything, and comparing with itself must agree with comparing with a clone.
#[allow(clippy::eq_op)]
fn self_eq_case(c: &mut Ctx, rng: &mut Rng) {
    use crate::ckalloc::CkAlloc;
    use crate::plan::PlanBH;
    let bh = PlanBH::new(crate::mapdrv::pick_plan(rng), rng.next());
    let mut m: hashbrown::HashMap<P8, f64, PlanBH, CkAlloc> = hashbrown::HashMap::with_hasher_in(bh, CkAlloc);
    let n = rng.below(20) as u32;
    for i in 0..n {
        m.insert(P8::make(i, 0), i as f64);
    }
    c.evaluations += 1;
    c.sig_parts(&[9, n.min(3) as u64]);
    let cl = m.clone();
    crate::check!(m == m && m == cl && cl == m, "a map of ordinary values is not == itself / its clone");
    let with_nan = rng.chance(2, 3);
    if with_nan {
        m.insert(P8::make(1000, 0), f64::NAN);
        let cl = m.clone();
        let self_eq = m == m;
        let clone_eq = m == cl;
        crate::check!(!clone_eq, "a map holding a NaN value compares equal to its clone");
        crate::check!(self_eq == clone_eq, "m == m is {} but m == m.clone() is {}: == depends on whether the operands are the same object", self_eq, clone_eq);
    }
    let mut s: hashbrown::HashSet<P8, PlanBH, CkAlloc> = hashbrown::HashSet::with_hasher_in(bh, CkAlloc);
    for i in 0..n {
        s.insert(P8::make(i, 0));
    }
    crate::check!(s == s && s == s.clone(), "a set is not == itself / its clone");
}

fn set_eq_case<T: Elem>(c: &mut Ctx, a_spec: &Spec, b_spec: &Spec) {
    let a: SetC<T> = build(a_spec);
    let mut b: SetC<T> = build(b_spec);
    c.evaluations += 1;
    c.sig_parts(&[5, a.len().min(4) as u64, b.len().min(4) as u64]);
    let what = format!("HashSet<{}> == : a [{}] vs b [{}]", T::NAME, a_spec.describe(), b_spec.describe());
    let ids = |x: &SetC<T>| x.contents().iter().map(|e| e.0).collect::<Vec<_>>();
    crate::check!((a.0 == b.0) == (ids(&a) == ids(&b)), "{}: == disagrees with the contents", what);
    b.clear();
    for id in ids(&a).iter().rev() {
        b.put(*id, 9);
    }
    crate::check!(a.0 == b.0 && b.0 == a.0, "{}: sets with the same elements are not ==", what);
    crate::check!(!(a.0 != b.0) && !(b.0 != a.0), "{}: sets with the same elements are !=", what);
    if let Some(id) = ids(&a).first() {
        b.del(*id);
        crate::check!(a.0 != b.0 && b.0 != a.0, "{}: sets of different size compare equal", what);
    }
}

/// Zero-sized elements with observable Clone/Drop: a clone must create (and later drop) one element per stored element.
fn zst_clone(c: &mut Ctx, rng: &mut Rng) {
    use crate::ckalloc::CkAlloc;
    let n = *rng.pick(&[0usize, 1, 3, 8, 16, 17, 40]);
    let h = rng.next();
    let mut t: hashbrown::HashTable<Z, CkAlloc> = hashbrown::HashTable::new_in(CkAlloc);
    for _ in 0..n {
        t.insert_unique(h, Z::make(0, 0), |_| h);
    }
    for which in 0..2 {
        c.evaluations += 1;
        c.sig_parts(&[6, which, n.min(20) as u64]);
        let r0 = elem::reg_counters();
        let calls0 = crate::fuse::count(crate::fuse::Class::Clone);
        let t2 = if which == 0 {
            t.clone()
        } else {
            let mut x: hashbrown::HashTable<Z, CkAlloc> = hashbrown::HashTable::with_capacity_in(rng.usize_below(30), CkAlloc);
            for _ in 0..rng.below(5) {
                x.insert_unique(h, Z::make(0, 0), |_| h);
            }
            let before = elem::reg_counters();
            let pre = x.len() as u64;
            x.clone_from(&t);
            crate::check!(elem::reg_counters().zst_dropped - before.zst_dropped == pre, "HashTable<Z>::clone_from dropped {} of {} old target elements", elem::reg_counters().zst_dropped - before.zst_dropped, pre);
            x
        };
        let made = elem::reg_counters().zst_made - r0.zst_made - if which == 1 { 0 } else { 0 };
        let calls = crate::fuse::count(crate::fuse::Class::Clone) - calls0;
        crate::check!(calls == n as u64, "HashTable<Z> ({} elements): Clone::clone was called {} times", n, calls);
        crate::check!(t2.len() == n && t2.iter().count() == n, "HashTable<Z> clone has len {} / yields {} for {}", t2.len(), t2.iter().count(), n);
        let _ = made;
        let d0 = elem::reg_counters().zst_dropped;
        drop(t2);
        crate::check!(elem::reg_counters().zst_dropped - d0 == n as u64, "dropping the HashTable<Z> clone dropped {} elements, {} expected", elem::reg_counters().zst_dropped - d0, n);
    }
    // HashSet<Z> / HashMap<Z, T24>: at most one element
    let bh = crate::plan::PlanBH::new(crate::plan::Plan::Mixed, rng.next());
    let mut s: hashbrown::HashSet<Z, crate::plan::PlanBH, CkAlloc> = hashbrown::HashSet::with_hasher_in(bh, CkAlloc);
    s.insert(Z::make(0, 0));
    let calls0 = crate::fuse::count(crate::fuse::Class::Clone);
    let s2 = s.clone();
    crate::check!(crate::fuse::count(crate::fuse::Class::Clone) - calls0 == 1, "HashSet<Z>::clone did not clone its element");
    crate::check!(s2 == s, "HashSet<Z> clone != source");
    c.evaluations += 1;
}

/// clone / clone_from of very large sparse tables (2^22..2^27 buckets) holding a few elements whose probes wrap around
/// the end of the table: the copy must find every element again (a block-wise copy that forgets the trailing mirror
/// bytes, or the last partial block, shows as a failed lookup, as `clone != source`, or as an I4 violation).
fn huge_clone_case(c: &mut Ctx, rng: &mut Rng, idx_hint: u64) {
    use crate::plan::{Plan, PlanBH};
    use crate::states::{Coll, SetC};
    let lg = if idx_hint == 3 { 27 } else { *rng.pick(&[22u32, 24, 27]) };
    let cap = (1usize << lg) / 8 * 7;
    let plan = *rng.pick(&[Plan::Tail, Plan::Tail, Plan::Max, Plan::Mixed]);
    let bh = PlanBH::new(plan, rng.next());
    let mut d = Json::obj();
    d.set("case", Json::s(format!("clone/clone_from of a sparse HashSet<P8> with 2^{} buckets, plan {:?}", lg, plan)));
    c.describe(d);
    c.evaluations += 1;
    c.sig_parts(&[11, lg as u64, crate::ctx::prop_salt(&plan.name())]);
    c.bump("huge_clones");
    let mut src: SetC<P8> = SetC::with_cap(bh, cap);
    let n = 20 + rng.below(30) as u32;
    for id in 0..n {
        src.put(id, 1);
    }
    for id in 0..n {
        if id % 4 == 1 {
            src.del(id);
        }
    }
    let ids: Vec<u32> = src.contents().iter().map(|e| e.0).collect();
    let what = format!("HashSet<P8> 2^{} buckets ({:?})", lg, plan);
    let check = |what: &str, copy: &SetC<P8>| {
        crate::check!(copy.len() == ids.len(), "{}: the copy has len() {} , the source {}", what, copy.len(), ids.len());
        let missing: Vec<u32> = ids.iter().copied().filter(|id| !copy.has(*id)).take(4).collect();
        crate::check!(missing.is_empty(), "{}: the copy does not find {:?} (of {} elements)", what, missing, ids.len());
        crate::check!(copy.0 == src.0 && src.0 == copy.0, "{}: the copy is not == the source", what);
        crate::check!(copy.0.iter().count() == ids.len(), "{}: the copy yields {} elements", what, copy.0.iter().count());
    };
    let cl = SetC(src.0.clone());
    check(&format!("{} clone()", what), &cl);
    cl.validate(&what);
    drop(cl);
    // clone_from into a table of the same size that holds other elements (allocation reused) ...
    let mut t: SetC<P8> = SetC::with_cap(bh, cap);
    for id in 1000..1010 {
        t.put(id, 2);
    }
    t.0.clone_from(&src.0);
    check(&format!("{} clone_from (same bucket count)", what), &t);
    drop(t);
    // ... and into a small one (new allocation)
    let mut t: SetC<P8> = SetC::with_cap(bh, 3);
    t.put(7, 2);
    t.0.clone_from(&src.0);
    check(&format!("{} clone_from (smaller target)", what), &t);
    t.validate(&what);
}

pub fn run(c: &mut Ctx) {
    // this property rebuilds every state many times: very large sparse states are capped at 2^24 buckets
    crate::states::set_huge_max_lg(24);
    c.run_scenarios(|c, idx, rng| {
        // three fixed scenario indices per lane and run (they are reached within the first seconds of whichever shard owns them):
        // the case is expensive, so its number is fixed instead of drawn
        if (idx == 3 || idx == 11 || idx == 40) && !crate::util::slow_lane() && c.lane != "asan" {
            huge_clone_case(c, rng, idx);
            return;
        }
        let n = RECIPES.len() as u64;
        let tr = RECIPES[((crate::util::mix(idx) / 8) % n) as usize];
        let sr = RECIPES[((crate::util::mix(idx) / (8 * n)) % n) as usize];
        let tspec = Spec::random(rng, tr);
        let sspec = Spec::random(rng, sr);
        let mut d = Json::obj();
        d.set("target", Json::s(tspec.describe()));
        d.set("source", Json::s(sspec.describe()));
        d.set("case", Json::i(crate::util::mix(idx) % 8));
        c.describe(d);
        match crate::util::mix(idx) % 8 {
            0 => map_pair::<T24, T24>(c, &tspec, &sspec, rng),
            1 => map_pair::<P8, T24>(c, &tspec, &sspec, rng),
            2 if rng.chance(1, 3) => map_pair::<elem::L600, B1>(c, &tspec, &sspec, rng),
            2 => map_pair::<L200, B1>(c, &tspec, &sspec, rng),
            3 => map_pair::<P8, P8>(c, &tspec, &sspec, rng),
            4 => {
                set_pair::<T24>(c, &tspec, &sspec, rng);
                set_eq_case::<T24>(c, &tspec, &sspec);
            }
            5 => {
                table_clone::<T24>(c, &sspec);
                table_clone::<P8>(c, &tspec);
                zst_clone(c, rng);
            }
            6 => {
                eq_case::<T24, T24>(c, &tspec, &sspec, rng);
                self_eq_case(c, rng);
            }
            _ => eq_case::<P8, B1>(c, &tspec, &sspec, rng),
        }
    });
}
