//! C08: capacity contract — reserved room is real, unused room costs nothing.
//! Every check below is verbatim one inequality of the statement, observed at
//! the public API plus the allocator ledger (M1).

use crate::ckalloc;
use crate::ctx::Ctx;
use crate::for_coll;
use crate::plan::{Plan, PlanBH};
use crate::states::{build, Coll, Spec, COLLS, RECIPES};
use crate::util::{Json, Rng};

pub fn run(c: &mut Ctx) {
    // this property rebuilds every state many times: very large sparse states are capped at 2^22 buckets
    crate::states::set_huge_max_lg(22);
    c.run_scenarios(|c, idx, rng| {
        if crate::util::mix(idx ^ 0x1a26e) % 40 == 0 && !crate::util::slow_lane() {
            let name = *rng.pick(&LARGE_COLLS);
            for_coll!(name, large_case(c, rng, name));
            return;
        }
        let name = COLLS[(crate::util::mix(idx) % COLLS.len() as u64) as usize];
        for_coll!(name, scenario(c, idx, rng, name));
    });
}

const LARGE_COLLS: [&str; 7] = ["map:P8xP8", "set:P8", "table:P8", "set:B6", "map:B3xB1", "table:B3", "map:B3xZ"];

/// The same inequalities on tables of 2^16..2^21 buckets that are (or were) densely filled: the request sizes
/// are taken around the real capacity and bucket count, not a bounded stand-in.
fn large_case<C: Coll>(c: &mut Ctx, rng: &mut Rng, name: &str) {
    let mut lg = *rng.pick(&[16u32, 17, 18, 19, 20, 20, 21]);
    while (C::elem_size().max(1) << lg) > (40 << 20) {
        lg -= 1;
    }
    let buckets = 1usize << lg;
    let cap = buckets / 8 * 7;
    let plan = *rng.pick(&[Plan::Mixed, Plan::Ident, Plan::Mixed]);
    let bh = PlanBH::new(plan, rng.next());
    let (fill, keep) = match rng.below(5) {
        0 => (cap, cap * (20 + rng.usize_below(40)) / 100),
        1 => (cap, cap / 2 + rng.usize_below(3)),
        2 => (cap * 3 / 4, cap / 3),
        3 => (cap, cap - 1 - rng.usize_below(cap / 16)),
        _ => (cap / 2 + rng.usize_below(cap / 2), cap / 2 - rng.usize_below(cap / 4)),
    };
    let strided = rng.chance(1, 2);
    let build_it = || -> C {
        let mut x = C::with_cap(bh, cap);
        for id in 0..fill as u32 {
            x.put(id, 3);
        }
        // thin out to `keep` elements: either the tail of the id range or every k-th id
        let mut left = fill;
        if strided {
            let mut id = 0u32;
            while left > keep && (id as usize) < fill {
                if id % 3 != 0 {
                    x.del(id);
                    left -= 1;
                }
                id += 1;
            }
        }
        let mut id = fill as u32;
        while left > keep && id > 0 {
            id -= 1;
            if x.del(id) {
                left -= 1;
            }
        }
        x
    };
    let mut d = Json::obj();
    d.set("collection", Json::s(name));
    d.set("state", Json::s(format!("large: 2^{} buckets, {:?}, filled to {} then thinned to {} ({})", lg, plan, fill, keep, if strided { "strided" } else { "tail" })));
    c.describe(d);
    let tag = format!("{} [2^{} buckets, {:?}, filled {} kept {}]", name, lg, plan, fill, keep);
    let held = |what: &str, col: &C| {
        crate::check!(col.capacity() >= col.len(), "{} {}: capacity() {} < len() {}", tag, what, col.capacity(), col.len());
        let live = ckalloc::counters().live_bytes;
        crate::check!(col.alloc_size() == live, "{} {}: allocation_size() {} but the allocator holds {} bytes for it", tag, what, col.alloc_size(), live);
    };
    let mut targets = vec![cap / 2, cap / 2 + 1, cap - 1, cap, cap + 1, cap + (buckets - cap) / 2, buckets - 1, buckets, buckets + 1, keep, keep + 1];
    targets.push(keep + rng.usize_below(buckets + buckets / 2 - keep));
    targets.retain(|t| *t >= keep);
    for i in (1..targets.len()).rev() {
        let j = rng.usize_below(i + 1);
        targets.swap(i, j);
    }
    targets.truncate(3);
    for t in targets {
        let mut x = build_it();
        let f = x.validate(&tag);
        if f.deleted > 0 {
            c.bump("large_states_with_tombstones");
        }
        if f.buckets != buckets || x.len() != keep {
            // not the shape this case is about (C17 decides the bucket arithmetic); the inequalities below would still be meaningful but mislabelled
            c.bump("large_state_unexpected_shape");
            return;
        }
        held("built", &x);
        // the reported room is real
        let n = t - keep;
        let fallible = rng.chance(1, 3);
        if fallible {
            crate::check!(x.try_reserve(n).is_ok(), "{}: try_reserve({}) failed without an allocation fault", tag, n);
        } else {
            x.reserve(n);
        }
        crate::check!(x.len() == keep, "{}: reserve({}) changed len() {} -> {}", tag, n, keep, x.len());
        crate::check!(x.capacity() >= keep + n, "{}: after reserve({}) capacity() {} < len() {} + {}", tag, n, x.capacity(), keep, n);
        let room = (x.capacity() - x.len()).min(n).min(4000);
        let a0 = ckalloc::counters();
        for i in 0..room as u32 {
            x.put(fill as u32 + 7 + i, 9);
        }
        let a1 = ckalloc::counters();
        crate::check!(a1.allocs == a0.allocs && a1.deallocs == a0.deallocs, "{}: after reserve({}) inserting {} absent keys allocated again", tag, n, room);
        held("after reserve", &x);
        x.validate(&tag);
        c.bump("large_reserves");
        c.evaluations += 1;
        c.sig_parts(&[crate::ctx::prop_salt(name), 77, lg as u64, (t * 16 / buckets) as u64, (keep * 8 / buckets) as u64]);
    }
    // filling exactly the reported room allocates nothing; shrinking gives back what a fresh table would not need
    {
        let mut x = build_it();
        let room = (x.capacity() - x.len()).min(60_000);
        let a0 = ckalloc::counters();
        for i in 0..room as u32 {
            x.put(fill as u32 + 7 + i, 9);
        }
        let a1 = ckalloc::counters();
        crate::check!(a1.allocs == a0.allocs && a1.deallocs == a0.deallocs, "{}: inserting {} absent keys into the reported room of {} allocated", tag, room, x.capacity() - x.len() + room);
        held("after filling the reported room", &x);
        let len = x.len();
        let (size0, cap0) = (x.alloc_size(), x.capacity());
        let m = *rng.pick(&[0usize, 0, len + 1, cap / 2, cap]);
        if m == 0 {
            x.shrink_to_fit();
        } else {
            x.shrink_to(m);
        }
        crate::check!(x.len() == len, "{}: shrink changed len()", tag);
        crate::check!(x.alloc_size() <= size0, "{}: shrink_to({}) enlarged the allocation {} -> {}", tag, m, size0, x.alloc_size());
        crate::check!(x.capacity() >= len.max(m.min(cap0)), "{}: after shrink_to({}) capacity() {} < max(len {}, min(m, previous capacity {}))", tag, m, x.capacity(), len, cap0);
        let fresh: C = C::with_cap(bh, len.max(m));
        let fs = fresh.alloc_size();
        drop(fresh);
        crate::check!(x.alloc_size() <= fs, "{}: after shrink_to({}) the allocation is {} bytes, larger than a fresh with_capacity({}) = {} bytes", tag, m, x.alloc_size(), len.max(m), fs);
        held("after shrink", &x);
        x.validate(&tag);
        c.bump("large_shrinks");
        c.evaluations += 1;
        c.sig_parts(&[crate::ctx::prop_salt(name), 78, lg as u64, (m * 8 / buckets) as u64, (len * 8 / buckets) as u64]);
    }
}

fn absent_ids<C: Coll>(col: &C, n: usize, rng: &mut Rng) -> Vec<u32> {
    let space = C::id_space();
    let mut out = Vec::new();
    let mut id = 5000u32.min(space.saturating_sub(1));
    let mut tries = 0;
    while out.len() < n && tries < 4 * n + 600 {
        tries += 1;
        id = if space > 70000 { id.wrapping_add(1 + rng.below(3) as u32) % space } else { (id + 1) % space.max(1) };
        // in a large id space the walk is strictly increasing, so a candidate cannot repeat
        if !col.has(id) && (space > 70000 || !out.contains(&id)) {
            out.push(id);
        }
    }
    out
}

fn boundary_values(cap: usize, rng: &mut Rng) -> Vec<usize> {
    let mut v = vec![0, 1, 2, 3, 4, 7, 8, cap / 2, cap.saturating_sub(1), cap, cap + 1, 2 * cap, 4 * cap];
    for k in 2..10u32 {
        let b = 7 * (1usize << k) / 8;
        v.extend_from_slice(&[b.saturating_sub(1), b, b + 1]);
    }
    v.push(rng.usize_below(4 * cap + 8));
    v.sort();
    v.dedup();
    v
}

pub fn scenario<C: Coll>(c: &mut Ctx, idx: u64, rng: &mut Rng, name: &str) {
    let recipe = RECIPES[((crate::util::mix(idx) / COLLS.len() as u64) % RECIPES.len() as u64) as usize];
    let spec = Spec::random(rng, recipe);
    let bh = PlanBH::new(spec.plan, spec.salt);
    let mut d = Json::obj();
    d.set("collection", Json::s(name));
    d.set("state", Json::s(spec.describe()));
    c.describe(d);
    let sigbase = [crate::ctx::prop_salt(name), recipe as u64];
    let ev = |c: &mut Ctx, kind: u64, class: u8| {
        c.evaluations += 1;
        c.sig_parts(&[sigbase[0], sigbase[1], kind, class as u64]);
    };

    // --- new()/default()/with_capacity(0) allocate nothing, even when used read-only ---
    {
        let a0 = ckalloc::counters();
        let mut e: C = C::new_unallocated(bh, rng.below(3) as u8);
        let _ = e.has(1);
        let _ = e.del(1);
        let _ = e.contents();
        e.clear();
        e.shrink_to_fit();
        e.shrink_to(0);
        e.reserve(0);
        let _ = e.drain_some(1);
        crate::check!(e.capacity() == 0 && e.alloc_size() == 0, "{}: unallocated collection reports capacity {} / allocation_size {}", name, e.capacity(), e.alloc_size());
        let a1 = ckalloc::counters();
        crate::check!(a1.allocs == a0.allocs && a1.live_blocks == a0.live_blocks, "{}: a collection that was never given an element or a capacity allocated ({} -> {} allocs)", name, a0.allocs, a1.allocs);
        drop(e);
        ev(c, 1, 0);
    }

    let mut col: C = build(&spec);
    let f = col.validate(name);
    let cls = f.class;
    c.bump(&format!("recipe_{:?}", recipe));
    if f.deleted > 0 {
        c.bump("states_with_tombstones");
    }
    // --- capacity() >= len(); allocation_size() == bytes held ---
    let held = |what: &str, col: &C| {
        crate::check!(col.capacity() >= col.len(), "{} {}: capacity() {} < len() {}", name, what, col.capacity(), col.len());
        let live = ckalloc::counters().live_bytes;
        crate::check!(col.alloc_size() == live, "{} {}: allocation_size() {} but the allocator holds {} bytes for it", name, what, col.alloc_size(), live);
    };
    held("built", &col);
    ev(c, 2, cls);

    // --- inserting up to capacity()-len() absent keys performs no allocation ---
    {
        let room = col.capacity() - col.len();
        // (bulk inserts are quadratic under clustering plans)
        let ids = absent_ids(&col, room.min(if spec.plan.is_clustering() { 400 } else { 20_000 }), rng);
        // through insert, or through Extend from an iterator with any lawful size hint (exact, loose upper bound, none)
        let n = ids.len();
        let route = rng.below(8);
        let (lo, hi): (usize, Option<usize>) = match route {
            1 => (n, Some(n)),
            2 => (0, Some(n)),
            3 => (0, Some(10 * n + 100_000)),
            4 => (0, None),
            5 => (n, None),
            6 => (n / 2, Some(2 * n + 7)),
            _ => (0, None),
        };
        let a0 = ckalloc::counters();
        if route == 0 {
            for (i, id) in ids.iter().enumerate() {
                col.put(*id, 900u16.wrapping_add(i as u16));
            }
        } else if route == 7 && C::send_elems() && !crate::util::slow_lane() {
            col.par_extend_ids(&ids, 902);
            c.bump("room_fills_through_par_extend");
        } else {
            col.extend_hinted(&ids, 901, lo, hi);
            c.bump("room_fills_through_extend");
        }
        let a1 = ckalloc::counters();
        if a1.allocs != a0.allocs || a1.deallocs != a0.deallocs {
            crate::viol!(
                "{} [{}]: inserting {} absent keys ({}) into a collection with len() {} and capacity()-len() = {} allocated ({} allocs, {} deallocs)",
                name, spec.describe(), n, if route == 0 { "insert".to_string() } else { format!("extend from an iterator with size_hint ({}, {:?})", lo, hi) },
                col.len() - n.min(col.len()), room, a1.allocs - a0.allocs, a1.deallocs - a0.deallocs
            );
        }
        held("after filling the reported room", &col);
        // nothing to insert: inserting zero keys allocates nothing either, whatever the state (here: often exactly full)
        {
            let (cap0, b0) = (col.capacity(), ckalloc::counters());
            col.extend_hinted(&[], 1, 0, *rng.pick(&[None, Some(0), Some(1000)]));
            if C::send_elems() && !crate::util::slow_lane() {
                col.par_extend_ids(&[], 1);
            }
            let b1 = ckalloc::counters();
            crate::check!(b1.allocs == b0.allocs && b1.deallocs == b0.deallocs && col.capacity() == cap0, "{} [{}]: extending by an empty input (len {}, capacity {} -> {}) allocated", name, spec.describe(), col.len(), cap0, col.capacity());
        }
        col.validate(name);
        if room > 0 {
            c.bump("room_fills");
        }
        ev(c, 3, cls);
    }

    // --- reserve(n) / with_capacity(n): capacity() >= len()+n ---
    // (for very large tables the request sizes are bounded: the inequalities are the same, the cost is not)
    let caps = boundary_values(col.capacity().max(4).min(4096), rng);
    drop(col);
    let picked: Vec<usize> = caps.iter().copied().filter(|_| rng.chance(1, 3)).collect();
    for n in picked {
        let mut x: C = build(&spec);
        let len = x.len();
        x.reserve(n);
        crate::check!(x.capacity() >= len + n, "{} [{}]: after reserve({}) capacity() {} < len() {} + {}", name, spec.describe(), n, x.capacity(), len, n);
        // and the reserved room is real
        let ids = absent_ids(&x, n.min(if spec.plan.is_clustering() { 60 } else { 300 }), rng);
        let a0 = ckalloc::counters();
        for id in &ids {
            x.put(*id, 7);
        }
        let a1 = ckalloc::counters();
        crate::check!(a1.allocs == a0.allocs, "{} [{}]: after reserve({}) inserting {} absent keys allocated again", name, spec.describe(), n, ids.len());
        held("after reserve", &x);
        drop(x);
        let w: C = C::with_cap(bh, n);
        crate::check!(w.capacity() >= n, "{}: with_capacity({}) gives capacity() {}", name, n, w.capacity());
        if n == 0 {
            crate::check!(w.alloc_size() == 0, "{}: with_capacity(0) allocated {} bytes", name, w.alloc_size());
        }
        drop(w);
        ev(c, 4, cls);
    }

    // --- shrink_to(m) / shrink_to_fit ---
    let picked: Vec<usize> = caps.iter().copied().filter(|_| rng.chance(1, 3)).chain([0usize, usize::MAX]).collect();
    for m in picked {
        let mut x: C = build(&spec);
        let before = x.contents();
        let (len, cap0, size0) = (x.len(), x.capacity(), x.alloc_size());
        let fit = m == usize::MAX;
        let m_eff = if fit { 0 } else { m };
        if fit {
            x.shrink_to_fit();
        } else {
            x.shrink_to(m);
        }
        let what = if fit { "shrink_to_fit()".to_string() } else { format!("shrink_to({})", m) };
        crate::check!(x.contents() == before, "{} [{}]: {} changed the contents", name, spec.describe(), what);
        crate::check!(x.alloc_size() <= size0, "{} [{}]: {} enlarged the allocation {} -> {}", name, spec.describe(), what, size0, x.alloc_size());
        let want = len.max(m_eff.min(cap0));
        crate::check!(x.capacity() >= want, "{} [{}]: after {} capacity() {} < max(len {}, min(m, previous capacity {}))", name, spec.describe(), what, x.capacity(), len, cap0);
        if len == 0 && m_eff == 0 {
            crate::check!(x.alloc_size() == 0 && ckalloc::counters().live_blocks == 0, "{} [{}]: {} on an empty collection keeps {} bytes", name, spec.describe(), what, x.alloc_size());
        } else {
            let fresh: C = C::with_cap(bh, len.max(m_eff));
            let fs = fresh.alloc_size();
            drop(fresh);
            if x.alloc_size() > fs {
                crate::viol!(
                    "{} [{}]: after {} the allocation is {} bytes, larger than a fresh with_capacity({}) = {} bytes (len {}, tombstones before: {})",
                    name, spec.describe(), what, x.alloc_size(), len.max(m_eff), fs, len, f.deleted
                );
            }
        }
        held("after shrink", &x);
        x.validate(name);
        ev(c, 5, cls);
    }

    // --- clear and drain keep the allocation ---
    for which in 0..2 {
        let mut x: C = build(&spec);
        let blocks0 = ckalloc::live_blocks();
        let a0 = ckalloc::counters();
        if which == 0 {
            x.clear();
        } else {
            let take = rng.usize_below(x.len() + 1);
            x.drain_some(take);
        }
        let a1 = ckalloc::counters();
        crate::check!(x.len() == 0, "{}: clear/drain leaves len {}", name, x.len());
        crate::check!(
            a1.allocs == a0.allocs && a1.deallocs == a0.deallocs && ckalloc::live_blocks() == blocks0,
            "{} [{}]: {} did not keep the allocation (allocs +{}, deallocs +{})",
            name, spec.describe(), if which == 0 { "clear" } else { "drain" }, a1.allocs - a0.allocs, a1.deallocs - a0.deallocs
        );
        held("after clear/drain", &x);
        // the kept allocation is usable: refilling up to the reported capacity, also through Extend with a loose
        // upper size hint, allocates nothing
        {
            let room = x.capacity().min(if spec.plan.is_clustering() { 300 } else { 3000 });
            let ids = absent_ids(&x, room, rng);
            let n = ids.len();
            let b0 = ckalloc::counters();
            if rng.chance(1, 3) {
                for id in &ids {
                    x.put(*id, 5);
                }
            } else {
                let hi = *rng.pick(&[None, Some(n), Some(4 * n + 50_000)]);
                x.extend_hinted(&ids, 5, 0, hi);
            }
            let b1 = ckalloc::counters();
            crate::check!(b1.allocs == b0.allocs && b1.deallocs == b0.deallocs, "{} [{}]: refilling {} keys into the allocation kept by {} (capacity {}) allocated", name, spec.describe(), n, if which == 0 { "clear" } else { "drain" }, x.capacity());
            held("after refilling a cleared collection", &x);
        }
        x.validate(name);
        ev(c, 6 + which, cls);
    }
}
