//! C12: try_reserve reports failure without panic, change or leak.
//! Fault enumeration over (state, additional, refusal).

use crate::ckalloc::{self, EvKind};
use crate::ctx::Ctx;
use crate::elem;
use crate::for_coll;
use crate::plan::PlanBH;
use crate::states::{build, Coll, Spec, RECIPES};
use crate::util::{catch, payload_str, Json, Rng};
use hashbrown::TryReserveError;

pub const C12_COLLS: [&str; 17] = [
    "set:Z", "table:Z8", "map:ZxZ",
    "map:P8xP8", "map:T24xT24", "map:B1xB1", "map:B3xZ", "map:L200xB1", "map:A64xP8", "map:L600xB1", "table:L4K", "set:B1", "set:B6", "set:T24", "table:B3", "table:T24", "table:P8",
];
/// requests above this are recorded and refused by the allocator, never backed by memory
const BYTE_CAP: usize = 1 << 20;

fn additional_values(len: usize, cap: usize, esize: usize, rng: &mut Rng, thorough: bool) -> Vec<usize> {
    let mut v: Vec<usize> = (0..=32).collect();
    v.extend_from_slice(&[cap.saturating_sub(len), cap.saturating_sub(len) + 1, cap, cap + 1, 2 * cap + 1]);
    for k in 2..=63u32 {
        let b = ((1u128 << k) * 7 / 8) as usize;
        for d in [-2i64, -1, 0, 1, 2] {
            v.push((b as i128 + d as i128).max(0) as usize);
        }
        if thorough {
            v.push((b as u128).saturating_sub(len as u128) as usize);
            v.push(((b as u128) + 1).saturating_sub(len as u128) as usize);
        }
    }
    v.extend_from_slice(&[isize::MAX as usize, isize::MAX as usize - 1, (isize::MAX as usize).wrapping_add(1), usize::MAX, usize::MAX - 1, usize::MAX - len, (usize::MAX - len).saturating_add(1), 1 << 40, 1 << 47]);
    let es = esize.max(1);
    v.extend_from_slice(&[usize::MAX / es, (usize::MAX / es).saturating_add(1), (usize::MAX / es).saturating_sub(1), isize::MAX as usize / es, (isize::MAX as usize / es).saturating_add(1)]);
    v.sort();
    v.dedup();
    if !thorough {
        // keep all small values and a third of the boundary values per state
        v = v.into_iter().filter(|x| *x <= 8 || rng.chance(1, 3)).collect();
    }
    v
}

/// Element types close to the largest size rustc accepts (2^61 - 1 bytes): no value is ever created, only the
/// size computation runs. Every bucket count then needs more than isize::MAX bytes, so the one acceptable answer
/// of try_reserve is Err(CapacityOverflow) without the allocator being asked; the infallible forms must panic
/// with "capacity overflow".
fn giant_elements<const N: usize>(c: &mut Ctx) {
    use crate::ckalloc::{self, CkAlloc};
    use hashbrown::TryReserveError;
    type G<const N: usize> = [u8; N];
    let bh = PlanBH::new(crate::plan::Plan::Mixed, 1);
    for additional in [1usize, 2, 3, 4, 7, 8, 14, 15, 28, 1000] {
        // is this request representable at all? (bucket count from the real function, byte size in 128-bit arithmetic)
        let w = hashbrown::verif::GROUP_WIDTH as u128;
        let unrepresentable = match hashbrown::verif::capacity_to_buckets(additional, N, 1) {
            None => true,
            Some(b) => {
                let data = (N as u128 * b as u128 + w - 1) / w * w;
                data + b as u128 + w > isize::MAX as u128 - (w - 1)
            }
        };
        for which in 0..3 {
            c.evaluations += 1;
            c.sig_parts(&[950, N as u64, additional as u64, which]);
            let what = format!("{}<[u8; {}]>::try_reserve({})", ["HashTable", "HashSet", "HashMap<(), _>"][which as usize], N, additional);
            let a0 = ckalloc::counters();
            let r = crate::util::catch(|| match which {
                0 => {
                    let mut t: hashbrown::HashTable<G<N>, CkAlloc> = hashbrown::HashTable::new_in(ckalloc::current());
                    let r = t.try_reserve(additional, |_| 0);
                    (r, t.capacity(), t.allocation_size())
                }
                1 => {
                    let mut t: hashbrown::HashSet<G<N>, PlanBH, CkAlloc> = hashbrown::HashSet::with_hasher_in(bh, ckalloc::current());
                    let r = t.try_reserve(additional);
                    (r, t.capacity(), t.allocation_size())
                }
                _ => {
                    let mut t: hashbrown::HashMap<(), G<N>, PlanBH, CkAlloc> = hashbrown::HashMap::with_hasher_in(bh, ckalloc::current());
                    let r = t.try_reserve(additional);
                    (r, t.capacity(), t.allocation_size())
                }
            });
            let a1 = ckalloc::counters();
            match r {
                Err(p) => crate::viol!("{}: panicked ({}) instead of returning an error", what, crate::util::payload_str(&p)),
                Ok((Ok(()), cap, size)) => crate::viol!("{}: returned Ok (capacity() {}, allocation_size() {}) although no table of this element type is representable", what, cap, size),
                Ok((Err(TryReserveError::CapacityOverflow), cap, size)) => {
                    crate::check!(cap == 0 && size == 0, "{}: the failed call left capacity() {} / allocation_size() {}", what, cap, size);
                    crate::check!(a1.allocs == a0.allocs && a1.refusals == a0.refusals, "{}: CapacityOverflow although the allocator was asked", what);
                    c.bump("giant_element_overflows_reported");
                }
                Ok((Err(TryReserveError::AllocError { layout }), _, _)) => {
                    crate::check!(!unrepresentable, "{}: the allocator was asked for {} bytes although the size is not representable", what, layout.size());
                    c.bump("giant_element_alloc_errors");
                }
            }
            // the infallible counterpart reports by panicking
            let r = crate::util::catch_expected(|| match which {
                0 => {
                    let mut t: hashbrown::HashTable<G<N>, CkAlloc> = hashbrown::HashTable::new_in(ckalloc::current());
                    if unrepresentable {
                        t.reserve(additional, |_| 0);
                    }
                    t.capacity()
                }
                1 => {
                    let t: hashbrown::HashSet<G<N>, PlanBH, CkAlloc> = if unrepresentable { hashbrown::HashSet::with_capacity_and_hasher_in(additional, bh, ckalloc::current()) } else { hashbrown::HashSet::with_hasher_in(bh, ckalloc::current()) };
                    t.capacity()
                }
                _ => {
                    let mut t: hashbrown::HashMap<(), G<N>, PlanBH, CkAlloc> = hashbrown::HashMap::with_hasher_in(bh, ckalloc::current());
                    if unrepresentable {
                        t.reserve(additional);
                    }
                    t.capacity()
                }
            });
            if unrepresentable {
                match r {
                    Ok(cap) => crate::viol!("{} (infallible form): returned normally with capacity() {}", what, cap),
                    Err(msg) => crate::check!(msg.to_lowercase().contains("capacity overflow"), "{} (infallible form): panicked with an unexpected message: {}", what, msg),
                }
            }
        }
    }
}

pub fn run(c: &mut Ctx) {
    // this property rebuilds every state many times: very large sparse states are capped at 2^20 buckets
    crate::states::set_huge_max_lg(20);
    c.run_scenarios(|c, idx, rng| {
        if crate::util::mix(idx ^ 0x61a) % 50 == 0 {
            let mut d = Json::obj();
            d.set("case", Json::s("element types of nearly the largest representable size"));
            c.describe(d);
            giant_elements::<{ (1 << 61) - 1 }>(c);
            giant_elements::<{ (1 << 61) - 2 }>(c);
            giant_elements::<{ (1 << 61) - 8 }>(c);
            giant_elements::<{ (1 << 61) - 9 }>(c);
            giant_elements::<{ (1 << 61) - 11 }>(c);
            giant_elements::<{ (1 << 61) - 16 }>(c);
            giant_elements::<{ (1 << 60) + 1 }>(c);
            giant_elements::<{ (1 << 60) - 1 }>(c);
            giant_elements::<{ (1 << 60) - 4 }>(c);
            giant_elements::<{ (1 << 60) - 5 }>(c);
            return;
        }
        let name = C12_COLLS[(crate::util::mix(idx) % C12_COLLS.len() as u64) as usize];
        for_coll!(name, scenario(c, idx, rng, name));
    });
}

/// The infallible counterparts: a request whose size is not representable must be reported (a "capacity
/// overflow" panic), never silently accepted and never turned into undefined behaviour. Only requests
/// that cannot reach the allocator are used (an infallible allocation failure aborts the process).
fn infallible_overflow<C: Coll>(c: &mut Ctx, spec: &Spec, name: &str) {
    use hashbrown::verif::{calculate_layout_for, capacity_to_buckets};
    let esize = C::elem_size();
    let probe: C = build(spec);
    let len = probe.len();
    drop(probe);
    let mut values: Vec<usize> = vec![usize::MAX, usize::MAX - len, (usize::MAX - len).saturating_add(1), usize::MAX / 8 + 1, isize::MAX as usize];
    // values whose bucket count fits but whose byte size does not (decided with the real arithmetic)
    for lg in 40..63u32 {
        let add = 1usize << lg;
        if let Some(total) = len.checked_add(add) {
            if let Some(b) = capacity_to_buckets(total, esize, 8) {
                if calculate_layout_for(esize, 8, b).is_none() {
                    values.push(add);
                    break;
                }
            }
        }
    }
    let bh = PlanBH::new(spec.plan, spec.salt);
    for add in values {
        // requests that would be representable are skipped (they would reach the allocator)
        let representable = len.checked_add(add).and_then(|t| capacity_to_buckets(t, esize, 8)).and_then(|b| calculate_layout_for(esize, 8, b)).is_some();
        if representable {
            continue;
        }
        c.evaluations += 1;
        c.sig_parts(&[crate::ctx::prop_salt(name), 900, (add == usize::MAX) as u64, (len == 0) as u64]);
        let mut x: C = build(spec);
        let before = x.contents();
        let cap0 = x.capacity();
        let what = format!("{} [{}] len {} reserve({})", name, spec.describe(), len, add);
        let r = crate::util::catch_expected(|| x.reserve(add));
        match r {
            Ok(()) => crate::viol!("{}: returned normally (capacity() = {}) although the request is not representable", what, x.capacity()),
            Err(msg) => crate::check!(msg.to_lowercase().contains("capacity overflow"), "{}: panicked with an unexpected message: {}", what, msg),
        }
        crate::check!(x.contents() == before && x.capacity() == cap0, "{}: the failed reserve changed the collection", what);
        x.validate(&what);
        drop(x);
        let r = crate::util::catch_expected(|| C::with_cap(bh, add));
        match r {
            Ok(w) => crate::viol!("{}: with_capacity({}) returned a collection of capacity {}", name, add, w.capacity()),
            Err(msg) => crate::check!(msg.to_lowercase().contains("capacity overflow"), "{}: with_capacity({}) panicked with an unexpected message: {}", name, add, msg),
        }
        c.bump("infallible_overflow_panics_checked");
    }
}

pub fn scenario<C: Coll>(c: &mut Ctx, idx: u64, rng: &mut Rng, name: &str) {
    let recipe = RECIPES[((crate::util::mix(idx) / C12_COLLS.len() as u64) % RECIPES.len() as u64) as usize];
    let spec = Spec::random(rng, recipe);
    let mut d = Json::obj();
    d.set("collection", Json::s(name));
    d.set("state", Json::s(spec.describe()));
    c.describe(d);
    let probe: C = build(&spec);
    let (len, cap) = (probe.len(), probe.capacity());
    let f = probe.validate(name);
    drop(probe);
    let esize = C::elem_size();
    infallible_overflow::<C>(c, &spec, name);
    if crate::util::has_violation() {
        return;
    }
    for additional in additional_values(len, cap, esize, rng, c.thorough()) {
        for refusal in 0..3u8 {
            // 0: the allocator obeys (up to the byte cap), 1: it refuses the next request, 2: it refuses the request after that
            let mut x: C = build(&spec);
            let before = x.contents();
            let blocks0 = ckalloc::live_blocks();
            let reg0 = elem::reg_counters();
            let cap0 = x.capacity();
            let ev0 = ckalloc::events_len();
            // the byte cap and the refusal apply to the call under test only (not to building the state)
            ckalloc::set_byte_cap(BYTE_CAP);
            ckalloc::refuse_in(match refusal {
                1 => Some(0),
                2 => Some(1),
                _ => None,
            });
            let r = catch(|| x.try_reserve(additional));
            ckalloc::refuse_in(None);
            ckalloc::set_byte_cap(ckalloc::HARD_CAP);
            let evs = ckalloc::events_since(ev0);
            let what = format!("{} [{}] len {} capacity {} try_reserve({}) refusal {}", name, spec.describe(), len, cap0, additional, refusal);
            c.evaluations += 1;
            let r = match r {
                Err(p) => {
                    crate::viol!("{}: panicked: {} ({})", what, payload_str(&p), crate::util::last_panic());
                    return;
                }
                Ok(r) => r,
            };
            let refused: Vec<_> = evs.iter().filter(|e| e.kind == EvKind::Refuse).collect();
            let asked = evs.iter().any(|e| e.kind == EvKind::Alloc || e.kind == EvKind::Refuse);
            let outcome;
            match &r {
                Ok(()) => {
                    outcome = 0u64;
                    crate::check!(x.capacity() >= len.saturating_add(additional) && len.checked_add(additional).is_some(), "{}: Ok but capacity() = {}", what, x.capacity());
                    crate::check!(x.contents() == before, "{}: Ok but the contents changed", what);
                }
                Err(TryReserveError::AllocError { layout }) => {
                    outcome = 1;
                    // a table that can hold n elements has at least n buckets: n control bytes and n elements.
                    // A refused request smaller than that was never going to satisfy the reservation, i.e. the
                    // size computation lost the request on the way (the error should have been CapacityOverflow).
                    match len.checked_add(additional) {
                        None => crate::viol!("{}: AllocError although len + additional overflows usize (must be CapacityOverflow)", what),
                        Some(n) => crate::check!(
                            layout.size() as u128 >= n as u128 * (esize as u128 + 1),
                            "{}: the allocator was asked for {} bytes, too small for {} elements of {} bytes plus their control bytes",
                            what, layout.size(), n, esize
                        ),
                    }
                    match refused.last() {
                        None => crate::viol!("{}: AllocError {:?} although the allocator refused nothing in this call", what, layout),
                        Some(e) => crate::check!(e.size == layout.size() && e.align == layout.align(), "{}: AllocError carries {:?} but the refused request was size {} align {}", what, layout, e.size, e.align),
                    }
                }
                Err(TryReserveError::CapacityOverflow) => {
                    outcome = 2;
                    crate::check!(!asked, "{}: CapacityOverflow although the allocator was asked ({} events)", what, evs.len());
                    // deliberately loose threshold for "plainly representable"
                    let plain = (len as u128 + additional as u128) * 4 * (esize as u128 + 1) + 4096 <= isize::MAX as u128;
                    crate::check!(!plain, "{}: CapacityOverflow for a request that is plainly representable", what);
                }
            }
            if r.is_err() {
                crate::check!(x.contents() == before, "{}: after the error the contents changed", what);
                crate::check!(x.len() == len, "{}: after the error len() {} != {}", what, x.len(), len);
                crate::check!(x.capacity() == cap0, "{}: after the error capacity() changed {} -> {}", what, cap0, x.capacity());
                let blocks1 = ckalloc::live_blocks();
                if blocks1 != blocks0 {
                    crate::viol!("{}: after the error the allocation changed: {:?} -> {:?}", what, blocks0, blocks1);
                }
                let reg1 = elem::reg_counters();
                crate::check!(reg1.dropped == reg0.dropped && reg1.cloned == reg0.cloned && reg1.live == reg0.live, "{}: after the error elements were dropped or leaked ({:?} -> {:?})", what, reg0, reg1);
            }
            if refusal == 1 && outcome == 1 {
                c.bump("refused_request_reported");
            }
            if outcome == 2 {
                c.bump("capacity_overflow_reported");
            }
            if outcome == 1 && refusal == 0 {
                c.bump("oversize_request_refused_by_cap");
            }
            let bucket = if additional <= 32 { 0 } else if additional < (1 << 20) { 1 } else if additional < (1 << 40) { 2 } else { 3 };
            c.sig_parts(&[crate::ctx::prop_salt(name), recipe as u64, refusal as u64, outcome, bucket, f.class as u64]);
            x.validate(&what);
            // still usable
            x.put(1 % C::id_space().max(1), 3);
            drop(x);
            if crate::util::has_violation() {
                return;
            }
        }
    }
}
