//! C01: HashMap equals a sequential key-value map for every history and hasher.

use crate::ctx::Ctx;
use crate::for_pair;
use crate::elem::Elem;
use crate::mapdrv::{pick_plan, MapDrv, W_ENTRY, W_GENERAL};
use crate::plan::PlanBH;
use crate::util::{Json, Rng};

pub const C01_PAIRS: [&str; 8] = ["P8xP8", "T24xT24", "L200xB1", "A64xP8", "B1xB1", "B3xB1", "P8xT24", "B6xZ"];

pub fn run(c: &mut Ctx) {
    c.run_scenarios(|c, idx, rng| {
        let pair = C01_PAIRS[(crate::util::mix(idx) % C01_PAIRS.len() as u64) as usize];
        for_pair!(pair, scenario(c, idx, rng));
    });
}

pub fn scenario<K: Elem, V: Elem>(c: &mut Ctx, _idx: u64, rng: &mut Rng) {
    let plan = pick_plan(rng);
    let salt = rng.next();
    let universe = *rng.pick(&[4u32, 8, 16, 24, 40, 64, 200]);
    let cap = *rng.pick(&[0usize, 0, 1, 3, 7, 14, 28, 100]);
    let n_ops = if c.is_miri() { 60 } else { *rng.pick(&[60usize, 150, 400]) };
    // one scenario in three starts from a recipe state (full, tombstone-saturated, random control-byte layout, ...)
    let from_recipe = rng.chance(1, 3);
    let mut d: MapDrv<K, V> = if from_recipe {
        use crate::props::c04::{build_state, Recipe, StateSpec, RECIPES};
        let recipe = RECIPES[rng.usize_below(RECIPES.len())];
        let plan = if matches!(recipe, Recipe::Layout) { crate::plan::Plan::Ident } else { plan };
        let spec = StateSpec { plan, salt, recipe, seed: rng.next(), size: rng.below(1000) as u32 };
        let mut d = build_state::<K, V>(&spec, c);
        d.validate_every = if crate::util::slow_lane() { 6 } else { 1 };
        d.universe = if matches!(recipe, Recipe::Layout) { 300u32.min(K::ID_SPACE) } else { ((d.model.len() as u32) * 2 + 8).min(K::ID_SPACE) };
        d
    } else {
        MapDrv::new(PlanBH::new(plan, salt), universe, cap)
    };
    let w = if rng.chance(1, 4) { &W_ENTRY } else { &W_GENERAL };
    let mut desc = d.describe("C01 history");
    desc.set("with_capacity", Json::i(cap));
    desc.set("from_recipe", Json::Bool(from_recipe));
    desc.set("ops", Json::i(n_ops));
    c.describe(desc);
    for _ in 0..n_ops {
        if !d.step(c, rng, w) {
            break;
        }
    }
    c.digests.push((c.scen_index, d.tr.0 ^ d.contents_digest()));
    drop(d);
}
