//! C01: HashMap equals a sequential key-value map for every history and hasher.

use crate::ctx::Ctx;
use crate::for_pair;
use crate::elem::Elem;
use crate::mapdrv::{pick_plan, MapDrv, W_ENTRY, W_GENERAL};
use crate::plan::PlanBH;
use crate::util::{Json, Rng};

pub const C01_PAIRS: [&str; 11] = ["P8xP8", "T24xT24", "L200xB1", "A64xP8", "B1xB1", "B3xB1", "P8xT24", "B6xZ", "L600xB1", "P8xL600", "B1xL4K"];

/// The `Copy`-only and default-hasher-only construction paths: `Extend<(&K, &V)>`, `Extend<&(K, V)>`,
/// `From<[(K, V); N]>`, `HashSet: Extend<&T>` / `From<[T; N]>`, compared with a BTreeMap.
fn copy_paths(c: &mut Ctx, rng: &mut Rng) {
    use crate::ckalloc::CkAlloc;
    use crate::elem::{Elem, B2, B6};
    use std::collections::BTreeMap;
    let plan = pick_plan(rng);
    let bh = PlanBH::new(plan, rng.next());
    let mut desc = Json::obj();
    desc.set("case", Json::s("Extend<(&K,&V)> / Extend<&(K,V)> / From<[_;N]> on Copy element types"));
    desc.set("plan", Json::s(plan.name()));
    c.describe(desc);
    let mut m: hashbrown::HashMap<B6, B2, PlanBH, CkAlloc> = hashbrown::HashMap::with_hasher_in(bh, CkAlloc);
    let mut model: BTreeMap<u32, u32> = BTreeMap::new();
    for round in 0..6 {
        let n = rng.below(30) as usize;
        let pairs: Vec<(B6, B2)> = (0..n).map(|_| (B6::make(rng.below(40) as u32, 0), B2::make(rng.below(60000) as u32, 0))).collect();
        for (k, v) in &pairs {
            model.insert(k.id(), v.id());
        }
        if round % 2 == 0 {
            m.extend(pairs.iter().map(|(k, v)| (k, v)));
        } else {
            m.extend(pairs.iter());
        }
        c.evaluations += 1;
        let got: BTreeMap<u32, u32> = m.iter().map(|(k, v)| (k.id(), v.id())).collect();
        crate::check!(got == model && m.len() == model.len(), "Extend by reference (round {}): map has {} entries, model {}", round, m.len(), model.len());
        for _ in 0..rng.below(10) {
            let id = rng.below(40) as u32;
            crate::check!(m.remove(&crate::plan::KeyRef(id)).map(|v| v.id()) == model.remove(&id), "remove({}) after Extend by reference disagrees with the model", id);
        }
        crate::validate::check_safety(&m.verif_dump(), "copy_paths");
    }
    // the constructors: none of them allocates before an element or a capacity is given
    {
        let a0 = crate::ckalloc::counters().allocs;
        let e1: hashbrown::HashMap<B6, B2, hashbrown::DefaultHashBuilder, CkAlloc> = hashbrown::HashMap::new_in(CkAlloc);
        let e2: hashbrown::HashMap<B6, B2, hashbrown::DefaultHashBuilder, CkAlloc> = hashbrown::HashMap::with_capacity_in(0, CkAlloc);
        let e3: hashbrown::HashSet<B6, hashbrown::DefaultHashBuilder, CkAlloc> = hashbrown::HashSet::new_in(CkAlloc);
        let e4: hashbrown::HashSet<B6, hashbrown::DefaultHashBuilder, CkAlloc> = hashbrown::HashSet::with_capacity_in(0, CkAlloc);
        let _ = (e1.allocator(), e3.allocator(), e1.capacity(), e2.capacity(), e4.capacity());
        crate::check!(crate::ckalloc::counters().allocs == a0, "new_in / with_capacity_in(0) allocated");
        let mut w: hashbrown::HashMap<B6, B2, hashbrown::DefaultHashBuilder, CkAlloc> = hashbrown::HashMap::with_capacity_in(10, CkAlloc);
        crate::check!(w.capacity() >= 10 && crate::ckalloc::counters().allocs == a0 + 1, "with_capacity_in(10): capacity {} after {} allocations", w.capacity(), crate::ckalloc::counters().allocs - a0);
        w.insert(B6::make(1, 0), B2::make(2, 0));
        let mut g1: hashbrown::HashMap<B6, B2> = hashbrown::HashMap::new();
        let mut g2: hashbrown::HashMap<B6, B2> = hashbrown::HashMap::with_capacity(5);
        let mut g3: hashbrown::HashMap<B6, B2, PlanBH> = hashbrown::HashMap::with_capacity_and_hasher(5, bh);
        let mut g4: hashbrown::HashSet<B6> = hashbrown::HashSet::new();
        let mut g5: hashbrown::HashSet<B6> = hashbrown::HashSet::with_capacity(5);
        let mut g6: hashbrown::HashSet<B6, PlanBH> = hashbrown::HashSet::with_capacity_and_hasher(5, bh);
        let mut t1: hashbrown::HashTable<B6> = hashbrown::HashTable::new();
        let mut t2: hashbrown::HashTable<B6> = hashbrown::HashTable::with_capacity(5);
        crate::check!(g1.capacity() == 0 && g4.capacity() == 0 && t1.capacity() == 0 && g2.capacity() >= 5 && g3.capacity() >= 5 && g5.capacity() >= 5 && g6.capacity() >= 5 && t2.capacity() >= 5, "constructor capacities");
        for i in 0..20u32 {
            g1.insert(B6::make(i, 0), B2::make(i, 0));
            g2.insert(B6::make(i, 0), B2::make(i, 0));
            g3.insert(B6::make(i, 0), B2::make(i, 0));
            g4.insert(B6::make(i, 0));
            g5.insert(B6::make(i, 0));
            g6.insert(B6::make(i, 0));
            t1.insert_unique(i as u64, B6::make(i, 0), |e| e.id() as u64);
            t2.insert_unique(i as u64, B6::make(i, 0), |e| e.id() as u64);
        }
        crate::check!(g1 == g2 && g1.len() == 20 && g3.len() == 20 && g4 == g5 && g6.len() == 20 && t1.len() == 20 && t2.len() == 20, "collections built through the plain constructors disagree");
        let _ = t1.allocator();
        c.evaluations += 1;
    }
    // From<[(K, V); N]> (default hasher): repeated keys keep the last value
    let arr = [(B6::make(1, 0), B2::make(10, 0)), (B6::make(2, 0), B2::make(20, 0)), (B6::make(1, 0), B2::make(30, 0)), (B6::make(3, 0), B2::make(40, 0))];
    let f: hashbrown::HashMap<B6, B2, hashbrown::DefaultHashBuilder, CkAlloc> = hashbrown::HashMap::from(arr);
    let got: BTreeMap<u32, u32> = f.iter().map(|(k, v)| (k.id(), v.id())).collect();
    crate::check!(got == BTreeMap::from([(1, 30), (2, 20), (3, 40)]), "From<[(K,V);4]> gives {:?}", got);
    let mut s: hashbrown::HashSet<B6, PlanBH, CkAlloc> = hashbrown::HashSet::with_hasher_in(bh, CkAlloc);
    let items: Vec<B6> = (0..rng.below(50)).map(|_| B6::make(rng.below(30) as u32, 0)).collect();
    s.extend(items.iter());
    let want: std::collections::BTreeSet<u32> = items.iter().map(|x| x.id()).collect();
    let gots: std::collections::BTreeSet<u32> = s.iter().map(|x| x.id()).collect();
    crate::check!(gots == want && s.len() == want.len(), "HashSet Extend<&T>: {} elements, expected {}", s.len(), want.len());
    let fs: hashbrown::HashSet<B6, hashbrown::DefaultHashBuilder, CkAlloc> = hashbrown::HashSet::from([B6::make(5, 0), B6::make(5, 0), B6::make(6, 0)]);
    crate::check!(fs.len() == 2, "HashSet::from([5,5,6]) has {} elements", fs.len());
    c.evaluations += 3;
    c.sig_parts(&[0xc0b1, crate::ctx::prop_salt(&plan.name())]);
}

/// Tables of 2^18..2^20 (one time in four: 2^21..2^26) buckets holding a few dozen elements: code paths gated on the table size
/// (and the wrap-around at the end of a very large table) are reached without needing many elements.
fn huge_scenario<K: Elem, V: Elem>(c: &mut Ctx, rng: &mut Rng) {
    use crate::mapdrv::W_HUGE;
    use crate::plan::Plan;
    let mut lg = if rng.chance(1, 4) { *rng.pick(&[21u32, 22, 23, 23, 24, 24, 25, 26]) } else { *rng.pick(&[18u32, 18, 19, 20]) };
    // the element area is never touched beyond the few slots in use, but it must fit the allocator's hard cap
    while (std::mem::size_of::<(K, V)>().max(1) + 1) << lg > (3usize << 30) {
        lg -= 1;
    }
    let cap = (1usize << lg) / 8 * 7;
    let plan = *rng.pick(&[Plan::Tail, Plan::Tail, Plan::Max, Plan::Mixed, Plan::Ident, Plan::Stride, Plan::SamePos]);
    let mut d: MapDrv<K, V> = MapDrv::new(PlanBH::new(plan, rng.next()), 64, cap);
    d.max_live = 48;
    // a full structure walk costs O(buckets): every call below 2^22 buckets, every second / third call above
    d.validate_every = if lg >= 25 { 3 } else if lg >= 22 { 2 } else { 1 };
    c.max("max_buckets_log2_huge", lg as u64);
    let mut desc = d.describe("C01 very large sparse table");
    desc.set("buckets_log2", Json::i(lg));
    c.describe(desc);
    c.bump("huge_table_scenarios");
    let n_ops = if c.is_miri() { 0 } else { 40 };
    for _ in 0..n_ops {
        if !d.step(c, rng, &W_HUGE) {
            break;
        }
    }
    c.max("max_buckets", d.facts.buckets as u64);
    c.digests.push((c.scen_index, d.tr.0 ^ d.contents_digest()));
}

pub fn run(c: &mut Ctx) {
    c.run_scenarios(|c, idx, rng| {
        if crate::util::mix(idx) % 23 == 0 {
            copy_paths(c, rng);
            return;
        }
        if crate::util::mix(idx) % 97 == 1 && !c.is_miri() {
            if rng.chance(1, 2) {
                huge_scenario::<crate::elem::P8, crate::elem::P8>(c, rng);
            } else {
                huge_scenario::<crate::elem::T24, crate::elem::B1>(c, rng);
            }
            return;
        }
        let pair = C01_PAIRS[(crate::util::mix(idx) % C01_PAIRS.len() as u64) as usize];
        for_pair!(pair, scenario(c, idx, rng));
    });
}

pub fn scenario<K: Elem, V: Elem>(c: &mut Ctx, _idx: u64, rng: &mut Rng) {
    let plan = pick_plan(rng);
    let salt = rng.next();
    let universe = *rng.pick(&[4u32, 8, 16, 24, 40, 64, 200]);
    let cap = *rng.pick(&[0usize, 0, 1, 3, 7, 14, 28, 100]);
    let n_ops = if c.is_miri() { 60 } else { *rng.pick(&[60usize, 150, 400]) };
    // one scenario in three starts from a recipe state (full, tombstone-saturated, random control-byte layout, ...)
    let from_recipe = rng.chance(1, 3);
    let mut d: MapDrv<K, V> = if from_recipe {
        use crate::props::c04::{build_state, Recipe, StateSpec, RECIPES};
        let recipe = RECIPES[rng.usize_below(RECIPES.len())];
        let plan = if matches!(recipe, Recipe::Layout) { crate::plan::Plan::Ident } else { plan };
        let spec = StateSpec { plan, salt, recipe, seed: rng.next(), size: rng.below(1000) as u32 };
        let mut d = build_state::<K, V>(&spec, c);
        d.validate_every = if crate::util::slow_lane() { 6 } else { 1 };
        d.universe = if matches!(recipe, Recipe::Layout) { 300u32.min(K::ID_SPACE) } else { ((d.model.len() as u32) * 2 + 8).min(K::ID_SPACE) };
        d
    } else {
        MapDrv::new(PlanBH::new(plan, salt), universe, cap)
    };
    let w = if rng.chance(1, 4) { &W_ENTRY } else { &W_GENERAL };
    let mut desc = d.describe("C01 history");
    desc.set("with_capacity", Json::i(cap));
    desc.set("from_recipe", Json::Bool(from_recipe));
    desc.set("ops", Json::i(n_ops));
    c.describe(desc);
    for _ in 0..n_ops {
        if !d.step(c, rng, w) {
            break;
        }
    }
    c.digests.push((c.scen_index, d.tr.0 ^ d.contents_digest()));
    drop(d);
}
