//! C02: the safe API is memory-safe for every program, element layout and hasher.
//! Same drivers as C01/C06 with the leak operations switched on, over the whole
//! element menu; the deciding oracles are the sanitizer of the lane, the
//! checking allocator, the element registry and the structure validator.

use crate::ctx::Ctx;
use crate::elem::Elem;
use crate::mapdrv::{pick_plan, MapDrv, W_LEAKY};
use crate::plan::PlanBH;
use crate::props::{ELEMS, PAIRS};
use crate::tabledrv::{TableDrv, TW_LEAKY};
use crate::util::{Json, Rng};
use crate::{for_elem, for_pair};

/// The interpreter copies a 4200-byte element byte by byte: in the Miri lane the two largest element types are
/// replaced by the 200-byte one (they exist for size thresholds, which the other lanes cover).
fn lane_elem(c: &Ctx, name: &'static str) -> &'static str {
    if !c.is_miri() {
        return name;
    }
    match name {
        "L600" | "L4K" => "L200",
        "L600xB1" => "L200xB1",
        "P8xL600" => "P8xT24",
        "B1xL4K" => "B1xL200",
        other => other,
    }
}

pub fn run(c: &mut Ctx) {
    c.run_scenarios(|c, idx, rng| {
        let which = crate::util::mix(idx) % 7;
        if which == 6 {
            let e = lane_elem(c, ELEMS[((crate::util::mix(idx) / 7) % ELEMS.len() as u64) as usize]);
            for_elem!(e, set_scenario(c, idx, rng));
        } else if which % 3 < 2 {
            let pair = lane_elem(c, PAIRS[((crate::util::mix(idx) / 7) % PAIRS.len() as u64) as usize]);
            for_pair!(pair, map_scenario(c, idx, rng));
        } else {
            let e = lane_elem(c, ELEMS[((crate::util::mix(idx) / 7) % ELEMS.len() as u64) as usize]);
            for_elem!(e, table_scenario(c, idx, rng));
        }
    });
}

fn budget(c: &Ctx, rng: &mut Rng) -> usize {
    if c.is_miri() {
        40
    } else {
        *rng.pick(&[40usize, 120, 300])
    }
}

pub fn map_scenario<K: Elem, V: Elem>(c: &mut Ctx, _idx: u64, rng: &mut Rng) {
    let plan = pick_plan(rng);
    let salt = rng.next();
    let universe = *rng.pick(&[4u32, 8, 16, 24, 40, 64]);
    let cap = *rng.pick(&[0usize, 0, 1, 3, 7, 14, 28]);
    let n_ops = budget(c, rng);
    let mut d: MapDrv<K, V> = MapDrv::new(PlanBH::new(plan, salt), universe, cap);
    let mut desc = d.describe("C02 map history with leak ops");
    desc.set("with_capacity", Json::i(cap));
    desc.set("ops", Json::i(n_ops));
    c.describe(desc);
    c.sig_parts(&[1, crate::ctx::prop_salt(K::NAME), crate::ctx::prop_salt(V::NAME)]);
    for _ in 0..n_ops {
        if !d.step(c, rng, &W_LEAKY) {
            break;
        }
    }
    // the collection must still be usable and droppable normally
    d.map.clear();
    drop(d);
}

pub fn table_scenario<E: Elem>(c: &mut Ctx, _idx: u64, rng: &mut Rng) {
    let plan = pick_plan(rng);
    let salt = rng.next();
    let universe = *rng.pick(&[2u32, 4, 8, 16, 40]);
    let cap = *rng.pick(&[0usize, 0, 1, 3, 7, 14, 28]);
    let n_ops = budget(c, rng);
    let mut d: TableDrv<E> = TableDrv::new(PlanBH::new(plan, salt), universe, cap);
    d.max_live = 300;
    let mut desc = d.describe("C02 table history with leak ops");
    desc.set("with_capacity", Json::i(cap));
    desc.set("ops", Json::i(n_ops));
    c.describe(desc);
    c.sig_parts(&[2, crate::ctx::prop_salt(E::NAME)]);
    for _ in 0..n_ops {
        if !d.step(c, rng, &TW_LEAKY) {
            break;
        }
    }
    drop(d);
}

/// HashSet: point operations and set-algebra iterators, with iterators/drains/entries forgotten part-way.
pub fn set_scenario<T: Elem>(c: &mut Ctx, _idx: u64, rng: &mut Rng) {
    use crate::plan::KeyRef;
    use crate::states::{build, Coll, SetC, Spec, RECIPES};
    let r1 = RECIPES[rng.usize_below(RECIPES.len())];
    let r2 = RECIPES[rng.usize_below(RECIPES.len())];
    let spec = Spec::random(rng, r1);
    let spec2 = Spec::random(rng, r2);
    let mut s: SetC<T> = build(&spec);
    let other: SetC<T> = build(&spec2);
    let mut desc = Json::obj();
    desc.set("collection", Json::s(format!("HashSet<{}>", T::NAME)));
    desc.set("state", Json::s(spec.describe()));
    desc.set("other", Json::s(spec2.describe()));
    c.describe(desc);
    c.sig_parts(&[3, crate::ctx::prop_salt(T::NAME)]);
    let universe = (s.len() as u32 * 2 + 6).min(T::ID_SPACE);
    let n_ops = if c.is_miri() { 12 } else { 40 };
    for step in 0..n_ops {
        c.evaluations += 1;
        let id = rng.below(universe as u64) as u32;
        let len = s.len();
        let k = rng.usize_below(len + 1);
        let op = rng.below(14);
        c.log(format!("set op {} id {} k {}", op, id, k));
        match op {
            0 => {
                s.0.insert(T::make(id, step as u16));
            }
            1 => {
                s.0.remove(&KeyRef(id));
            }
            2 => {
                if let Some(x) = s.0.replace(T::make(id, step as u16)) {
                    x.check();
                }
            }
            3 => {
                if let Some(x) = s.0.take(&KeyRef(id)) {
                    x.check();
                }
            }
            4 => {
                s.0.get_or_insert(T::make(id, step as u16)).check();
            }
            5 => {
                // valid and possibly emptied: what the set still holds must be live elements the drain had not handed out
                let mut d = s.0.drain();
                let mut yielded = Vec::new();
                for _ in 0..k {
                    if let Some(x) = d.next() {
                        x.check();
                        yielded.push(x.id());
                    }
                }
                std::mem::forget(d);
                c.leak_ok = true;
                let mut n = 0;
                for x in s.0.iter() {
                    x.check();
                    n += 1;
                    crate::check!(!yielded.contains(&x.id()), "HashSet after a leaked Drain still holds {}, which the drain had already handed out", x.id());
                }
                crate::check!(n == s.0.len(), "HashSet after a leaked Drain: len() {} but iter() yields {}", s.0.len(), n);
            }
            6 => {
                let mut it = s.0.extract_if(|x| x.id() % 2 == 0);
                for _ in 0..k {
                    match it.next() {
                        Some(x) => {
                            x.check();
                        }
                        None => break,
                    }
                }
                std::mem::forget(it);
            }
            7 => {
                let mut it = s.0.iter();
                for _ in 0..k {
                    it.next();
                }
                std::mem::forget(it);
            }
            8 => {
                let old = std::mem::replace(&mut s, SetC::<T>::with_cap(spec.plan_bh(), 0));
                let mut it = old.0.into_iter();
                for _ in 0..k {
                    if let Some(x) = it.next() {
                        x.check();
                    }
                }
                std::mem::forget(it);
                c.leak_ok = true;
            }
            9 => {
                let mut it = s.0.union(&other.0);
                for _ in 0..k {
                    if let Some(x) = it.next() {
                        x.check();
                    }
                }
                std::mem::forget(it);
            }
            10 => {
                let mut n = 0;
                for x in s.0.intersection(&other.0).chain(s.0.difference(&other.0)).chain(s.0.symmetric_difference(&other.0)) {
                    x.check();
                    n += 1;
                    if n > k {
                        break;
                    }
                }
            }
            11 => {
                let e = s.0.entry(T::make(id, step as u16));
                if matches!(e, hashbrown::hash_set::Entry::Vacant(_)) && T::TRACKED {
                    c.leak_ok = true;
                }
                std::mem::forget(e);
            }
            12 => {
                s.0.shrink_to_fit();
                s.0.reserve(k);
            }
            _ => {
                s.0.retain(|x| {
                    x.check();
                    x.id() % 3 != 0
                });
            }
        }
        let f = s.validate("C02 set");
        c.sig_parts(&[crate::validate::state_sig(&f) as u64, 700 + op]);
        let n = s.0.iter().map(|x| x.check()).count();
        crate::check!(n == s.len(), "HashSet iter() yields {} but len() is {}", n, s.len());
        if crate::util::has_violation() {
            break;
        }
    }
    s.0.clear();
    drop(s);
    drop(other);
}
