//! C02: the safe API is memory-safe for every program, element layout and hasher.
//! Same drivers as C01/C06 with the leak operations switched on, over the whole
//! element menu; the deciding oracles are the sanitizer of the lane, the
//! checking allocator, the element registry and the structure validator.

use crate::ctx::Ctx;
use crate::elem::Elem;
use crate::mapdrv::{pick_plan, MapDrv, W_LEAKY};
use crate::plan::PlanBH;
use crate::props::{ELEMS, PAIRS};
use crate::tabledrv::{TableDrv, TW_LEAKY};
use crate::util::{Json, Rng};
use crate::{for_elem, for_pair};

pub fn run(c: &mut Ctx) {
    c.run_scenarios(|c, idx, rng| {
        let which = crate::util::mix(idx) % 3;
        if which < 2 {
            let pair = PAIRS[((crate::util::mix(idx) / 3) % PAIRS.len() as u64) as usize];
            for_pair!(pair, map_scenario(c, idx, rng));
        } else {
            let e = ELEMS[((crate::util::mix(idx) / 3) % ELEMS.len() as u64) as usize];
            for_elem!(e, table_scenario(c, idx, rng));
        }
    });
}

fn budget(c: &Ctx, rng: &mut Rng) -> usize {
    if c.is_miri() {
        40
    } else {
        *rng.pick(&[40usize, 120, 300])
    }
}

pub fn map_scenario<K: Elem, V: Elem>(c: &mut Ctx, _idx: u64, rng: &mut Rng) {
    let plan = pick_plan(rng);
    let salt = rng.next();
    let universe = *rng.pick(&[4u32, 8, 16, 24, 40, 64]);
    let cap = *rng.pick(&[0usize, 0, 1, 3, 7, 14, 28]);
    let n_ops = budget(c, rng);
    let mut d: MapDrv<K, V> = MapDrv::new(PlanBH::new(plan, salt), universe, cap);
    let mut desc = d.describe("C02 map history with leak ops");
    desc.set("with_capacity", Json::i(cap));
    desc.set("ops", Json::i(n_ops));
    c.describe(desc);
    c.sig_parts(&[1, crate::ctx::prop_salt(K::NAME), crate::ctx::prop_salt(V::NAME)]);
    for _ in 0..n_ops {
        if !d.step(c, rng, &W_LEAKY) {
            break;
        }
    }
    // the collection must still be usable and droppable normally
    d.map.clear();
    drop(d);
}

pub fn table_scenario<E: Elem>(c: &mut Ctx, _idx: u64, rng: &mut Rng) {
    let plan = pick_plan(rng);
    let salt = rng.next();
    let universe = *rng.pick(&[2u32, 4, 8, 16, 40]);
    let cap = *rng.pick(&[0usize, 0, 1, 3, 7, 14, 28]);
    let n_ops = budget(c, rng);
    let mut d: TableDrv<E> = TableDrv::new(PlanBH::new(plan, salt), universe, cap);
    d.max_live = 300;
    let mut desc = d.describe("C02 table history with leak ops");
    desc.set("with_capacity", Json::i(cap));
    desc.set("ops", Json::i(n_ops));
    c.describe(desc);
    c.sig_parts(&[2, crate::ctx::prop_salt(E::NAME)]);
    for _ in 0..n_ops {
        if !d.step(c, rng, &TW_LEAKY) {
            break;
        }
    }
    drop(d);
}
