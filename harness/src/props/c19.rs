//! C19: parallel iteration visits each element exactly once under any split/schedule.
//!
//! * real rayon pools (1..64 threads) drive every parallel iterator into an instrumented
//!   consumer whose folders log what they received, leaf by leaf, with injected yields and
//!   sleeps; the log is checked offline: each stored element delivered exactly once;
//! * short-circuiting consumers (`full()` after k items) on into_par_iter / par_drain:
//!   undelivered elements must be dropped exactly once (element registry), par_drain leaves
//!   an empty usable collection;
//! * the real `RawIterRange::split` is driven along explicit decision trees (all trees for
//!   tables of <= 6 groups) and the leaves must partition the FULL buckets;
//! * par_extend / from_par_iter / par_eq / parallel set operations against sequential results.

use crate::ckalloc::CkAlloc;
use crate::ctx::Ctx;
use crate::elem::{self, Elem, P8, T24};
use crate::plan::{KeyRef, Plan, PlanBH};
use crate::states::{build, Coll, MapC, SetC, Spec, TableC, RECIPES};
use crate::util::{splitmix64, Json, Rng};
use rayon::iter::plumbing::{Consumer, Folder, Reducer, UnindexedConsumer};
use rayon::prelude::*;
use std::sync::atomic::{AtomicI64, AtomicU64, Ordering};
use std::sync::Mutex;

// ---------------------------------------------------------------------------------------------
// instrumented consumer

pub struct Log {
    /// one entry per folder (= one sequential leaf run): the (id, gen) it received, in order
    pub leaves: Mutex<Vec<Vec<(u32, u16)>>>,
    /// remaining budget before `full()` turns true (i64::MAX = never)
    pub budget: AtomicI64,
    pub noise: u64,
    pub folders: AtomicU64,
    /// when >= 0: the consumer panics (injected) when this countdown reaches zero
    pub panic_in: AtomicI64,
    /// one item in `yield_div` yields the thread, one in 12*yield_div sleeps (scaled down for large tables:
    /// on a loaded machine a yield can cost a whole time slice)
    pub yield_div: AtomicU64,
}
impl Log {
    pub fn new(budget: i64, noise: u64) -> Log {
        Log { leaves: Mutex::new(Vec::new()), budget: AtomicI64::new(budget), noise, folders: AtomicU64::new(0), panic_in: AtomicI64::new(-1), yield_div: AtomicU64::new(5) }
    }
    pub fn delivered(&self) -> Vec<(u32, u16)> {
        let mut v: Vec<(u32, u16)> = self.leaves.lock().unwrap().iter().flatten().copied().collect();
        v.sort();
        v
    }
    /// signature of the observed partition: the sorted list of leaf sizes
    pub fn partition_sig(&self) -> u64 {
        let mut sizes: Vec<usize> = self.leaves.lock().unwrap().iter().map(|l| l.len()).filter(|n| *n > 0).collect();
        sizes.sort();
        let mut d = crate::util::Digest::default();
        for s in sizes {
            d.u64(s as u64);
        }
        d.0
    }
}

pub struct LogConsumer<'a, T, F: Fn(&T) -> (u32, u16) + Sync> {
    log: &'a Log,
    idf: &'a F,
    _m: std::marker::PhantomData<fn(T)>,
}
impl<'a, T, F: Fn(&T) -> (u32, u16) + Sync> LogConsumer<'a, T, F> {
    pub fn new(log: &'a Log, idf: &'a F) -> Self {
        LogConsumer { log, idf, _m: std::marker::PhantomData }
    }
}
pub struct LogFolder<'a, T, F: Fn(&T) -> (u32, u16) + Sync> {
    log: &'a Log,
    idf: &'a F,
    got: Vec<(u32, u16)>,
    _m: std::marker::PhantomData<fn(T)>,
}
pub struct NoReduce;
impl Reducer<()> for NoReduce {
    fn reduce(self, _: (), _: ()) {}
}
impl<'a, T: Send, F: Fn(&T) -> (u32, u16) + Sync> Consumer<T> for LogConsumer<'a, T, F> {
    type Folder = LogFolder<'a, T, F>;
    type Reducer = NoReduce;
    type Result = ();
    fn split_at(self, _index: usize) -> (Self, Self, NoReduce) {
        (LogConsumer::new(self.log, self.idf), LogConsumer::new(self.log, self.idf), NoReduce)
    }
    fn into_folder(self) -> Self::Folder {
        self.log.folders.fetch_add(1, Ordering::SeqCst);
        LogFolder { log: self.log, idf: self.idf, got: Vec::new(), _m: std::marker::PhantomData }
    }
    fn full(&self) -> bool {
        self.log.budget.load(Ordering::SeqCst) <= 0
    }
}
impl<'a, T: Send, F: Fn(&T) -> (u32, u16) + Sync> UnindexedConsumer<T> for LogConsumer<'a, T, F> {
    fn split_off_left(&self) -> Self {
        LogConsumer::new(self.log, self.idf)
    }
    fn to_reducer(&self) -> NoReduce {
        NoReduce
    }
}
impl<'a, T, F: Fn(&T) -> (u32, u16) + Sync> Folder<T> for LogFolder<'a, T, F> {
    type Result = ();
    fn consume(mut self, item: T) -> Self {
        let id = (self.idf)(&item);
        if self.log.panic_in.load(Ordering::Relaxed) >= 0 && self.log.panic_in.fetch_sub(1, Ordering::SeqCst) == 0 {
            // the item is dropped by the unwinding; what this folder received so far is logged first
            self.log.leaves.lock().unwrap().push(std::mem::take(&mut self.got));
            std::panic::panic_any(crate::util::Injected("consumer"));
        }
        self.got.push(id);
        if self.log.budget.load(Ordering::Relaxed) != i64::MAX {
            self.log.budget.fetch_sub(1, Ordering::SeqCst);
        }
        // injected delays between items, so that other workers steal and split
        let r = splitmix64(id.0 as u64 ^ self.log.noise);
        let div = self.log.yield_div.load(Ordering::Relaxed).max(1);
        if r % div == 0 {
            std::thread::yield_now();
        } else if r % (12 * div + 1) == 0 {
            std::thread::sleep(std::time::Duration::from_micros(30));
        }
        drop(item);
        self
    }
    fn complete(self) {
        self.log.leaves.lock().unwrap().push(self.got);
    }
    fn full(&self) -> bool {
        self.log.budget.load(Ordering::SeqCst) <= 0
    }
}

fn pool(n: usize) -> rayon::ThreadPool {
    rayon::ThreadPoolBuilder::new().num_threads(n).build().expect("thread pool")
}

// ---------------------------------------------------------------------------------------------

type M<K, V> = hashbrown::HashMap<K, V, PlanBH, CkAlloc>;
type S<T> = hashbrown::HashSet<T, PlanBH, CkAlloc>;
type Tb<T> = hashbrown::HashTable<T, CkAlloc>;

fn big_map<K: Elem, V: Elem>(n: u32, holes: bool, rng: &mut Rng) -> M<K, V> {
    // (colliding plans make insertion quadratic: only for small tables)
    let plans: &[Plan] = if n > 3000 { &[Plan::Mixed, Plan::Ident, Plan::Stride] } else { &[Plan::Mixed, Plan::Ident, Plan::Stride, Plan::Palette(4, 4)] };
    let bh = PlanBH::new(*rng.pick(plans), rng.next());
    let mut m: M<K, V> = M::with_hasher_in(bh, CkAlloc);
    for id in 0..n {
        m.insert(K::make(id, 1), V::make(id % V::ID_SPACE, 1));
    }
    if holes {
        for id in 0..n {
            if splitmix64(id as u64) % 3 == 0 {
                m.remove(&crate::plan::KeyRef(id));
            }
        }
    }
    m
}

fn expect_same(what: &str, got: Vec<(u32, u16)>, want: &[(u32, u16)]) {
    if got != want {
        let missing: Vec<_> = want.iter().filter(|x| !got.contains(x)).take(4).collect();
        let mut d = got.clone();
        d.dedup();
        crate::viol!("{}: the consumer received {} elements for {} stored; never delivered {:?}; delivered more than once: {}", what, got.len(), want.len(), missing, got.len() - d.len());
    }
}

fn map_delivery<K: Elem, V: Elem>(c: &mut Ctx, rng: &mut Rng) {
    let threads = *rng.pick(&[1usize, 2, 3, 4, 8, 16, 64]);
    let threads = if c.is_miri() { threads.min(3) } else { threads };
    let from_recipe = rng.chance(1, 2);
    let (m, state): (M<K, V>, String) = if from_recipe {
        let rcp = RECIPES[rng.usize_below(RECIPES.len())];
        let spec = Spec::random(rng, rcp);
        (build::<MapC<K, V>>(&spec).0, spec.describe())
    } else {
        // rarely a table of 2^18..2^19 buckets (split code gated on the range length)
        let n = if c.is_miri() { 40 } else if rng.chance(1, 12) { *rng.pick(&[150_000u32, 300_000]) } else { *rng.pick(&[10u32, 100, 1000, 5000, 20000]) };
        if n >= 150_000 {
            c.bump("huge_table_deliveries");
        }
        let holes = rng.chance(1, 2);
        (big_map(n, holes, rng), format!("big n={} holes={}", n, holes))
    };
    let mut want: Vec<(u32, u16)> = m.iter().map(|(k, _)| (k.id(), k.gen())).collect();
    want.sort();
    let vwant: Vec<(u32, u16)> = {
        let mut v: Vec<_> = m.values().map(|v| (v.id(), v.gen())).collect();
        v.sort();
        v
    };
    let which = rng.below(7);
    let name = ["par_iter", "par_keys", "par_values", "par_iter_mut", "par_values_mut", "into_par_iter", "par_drain"][which as usize];
    let what = format!("HashMap<{},{}>::{} [{}] on {} thread(s)", K::NAME, V::NAME, name, state, threads);
    let mut d = Json::obj();
    d.set("case", Json::s(what.clone()));
    d.set("len", Json::i(want.len()));
    c.describe(d);
    c.evaluations += 1;
    let log = Log::new(i64::MAX, rng.next());
    // at most a few hundred injected yields per run
    log.yield_div.store((want.len() as u64 / 300).max(5), Ordering::SeqCst);
    let p = pool(threads);
    let mut m = m;
    match which {
        0 => {
            let f = |x: &(&K, &V)| {
                x.0.check();
                x.1.check();
                (x.0.id(), x.0.gen())
            };
            p.install(|| m.par_iter().drive_unindexed(LogConsumer::new(&log, &f)));
            expect_same(&what, log.delivered(), &want);
        }
        1 => {
            let f = |x: &&K| (x.id(), x.gen());
            p.install(|| m.par_keys().drive_unindexed(LogConsumer::new(&log, &f)));
            expect_same(&what, log.delivered(), &want);
        }
        2 => {
            let f = |x: &&V| (x.id(), x.gen());
            p.install(|| m.par_values().drive_unindexed(LogConsumer::new(&log, &f)));
            expect_same(&what, log.delivered(), &vwant);
        }
        3 => {
            let f = |x: &(&K, &mut V)| (x.0.id(), x.0.gen());
            p.install(|| m.par_iter_mut().drive_unindexed(LogConsumer::new(&log, &f)));
            expect_same(&what, log.delivered(), &want);
        }
        4 => {
            let f = |x: &&mut V| (x.id(), x.gen());
            p.install(|| m.par_values_mut().drive_unindexed(LogConsumer::new(&log, &f)));
            expect_same(&what, log.delivered(), &vwant);
        }
        5 => {
            let f = |x: &(K, V)| {
                x.0.check();
                x.1.check();
                (x.0.id(), x.0.gen())
            };
            let owned = std::mem::replace(&mut m, M::with_hasher_in(PlanBH::default(), CkAlloc));
            p.install(|| owned.into_par_iter().drive_unindexed(LogConsumer::new(&log, &f)));
            expect_same(&what, log.delivered(), &want);
        }
        _ => {
            let f = |x: &(K, V)| (x.0.id(), x.0.gen());
            p.install(|| m.par_drain().drive_unindexed(LogConsumer::new(&log, &f)));
            expect_same(&what, log.delivered(), &want);
            crate::check!(m.is_empty() && m.iter().count() == 0, "{}: the map is not empty after par_drain (len {})", what, m.len());
            m.insert(K::make(1 % K::ID_SPACE, 2), V::make(1 % V::ID_SPACE, 2));
            crate::check!(m.len() == 1, "{}: the map is unusable after par_drain", what);
            crate::validate::check_safety(&m.verif_dump(), &what);
        }
    }
    let leaves = log.leaves.lock().unwrap().iter().filter(|l| !l.is_empty()).count() as u64;
    c.max("max_leaves_in_one_run", leaves);
    c.add("leaf_runs_observed", leaves);
    if leaves > 1 {
        c.bump("runs_with_real_splits");
    }
    c.sig_parts(&[which, log.partition_sig(), threads as u64]);
    {
        let mut sizes: Vec<usize> = log.leaves.lock().unwrap().iter().map(|l| l.len()).filter(|n| *n > 0).collect();
        sizes.sort();
        sizes.truncate(24);
        c.log(format!("{}: delivered {} elements in {} leaf run(s); smallest leaf sizes {:?}", what, want.len(), leaves, sizes));
    }
    drop(p);
    drop(m);
}

/// Short-circuit: the consumer turns `full()` after k items, for k at every position (sampled for large tables).
fn short_circuit<K: Elem, V: Elem>(c: &mut Ctx, rng: &mut Rng) {
    let n = if c.is_miri() { 24 } else { *rng.pick(&[5u32, 17, 40, 200, 3000]) };
    let threads = if c.is_miri() { 2 } else { *rng.pick(&[1usize, 2, 4, 16]) };
    let ks: Vec<i64> = if n <= 40 { (0..=n as i64).collect() } else { vec![0, 1, 2, n as i64 / 2, n as i64 - 1, n as i64, rng.below(n as u64) as i64] };
    let mut d = Json::obj();
    d.set("case", Json::s(format!("short-circuit consumers on HashMap<{},{}> of {} keys, {} thread(s), stop points {:?}", K::NAME, V::NAME, n, threads, ks)));
    c.describe(d);
    let p = pool(threads);
    for k in ks {
        for which in 0..2u64 {
            c.evaluations += 1;
            let m: M<K, V> = big_map(n, rng.chance(1, 2), rng);
            let len = m.len();
            let want: Vec<(u32, u16)> = {
                let mut v: Vec<_> = m.iter().map(|(k, _)| (k.id(), k.gen())).collect();
                v.sort();
                v
            };
            let what = format!("HashMap<{},{}>::{} stop after {} of {} items on {} thread(s)", K::NAME, V::NAME, if which == 0 { "into_par_iter" } else { "par_drain" }, k, len, threads);
            c.log(what.clone());
            let live0 = elem::live_now();
            let log = Log::new(k, rng.next());
            let f = |x: &(K, V)| {
                x.0.check();
                x.1.check();
                (x.0.id(), x.0.gen())
            };
            let mut m = m;
            if which == 0 {
                let owned = std::mem::replace(&mut m, M::with_hasher_in(PlanBH::default(), CkAlloc));
                p.install(|| owned.into_par_iter().drive_unindexed(LogConsumer::new(&log, &f)));
            } else {
                p.install(|| m.par_drain().drive_unindexed(LogConsumer::new(&log, &f)));
                crate::check!(m.is_empty(), "{}: map not empty after par_drain (len {})", what, m.len());
                crate::validate::check_safety(&m.verif_dump(), &what);
                m.insert(K::make(0, 3), V::make(0, 3));
                crate::check!(m.len() == 1, "{}: map unusable after par_drain", what);
                m.clear();
            }
            let got = log.delivered();
            let mut dd = got.clone();
            dd.dedup();
            crate::check!(dd.len() == got.len(), "{}: an element was delivered twice", what);
            crate::check!(got.iter().all(|g| want.contains(g)), "{}: a foreign element was delivered", what);
            drop(m);
            // everything that was stored is gone: delivered ones were dropped by the consumer, the rest by the library, each once
            let per = K::TRACKED as u64 + V::TRACKED as u64;
            if per > 0 {
                let live1 = elem::live_now();
                if live1 + (len as u64 * per) != live0 {
                    crate::viol!(
                        "{}: {} of {} tracked elements were neither delivered nor dropped ({} delivered); double drops are reported separately",
                        what, (live1 + len as u64 * per) as i64 - live0 as i64, len as u64 * per, got.len()
                    );
                }
            }
            c.sig_parts(&[50 + which, (k == 0) as u64 + 2 * (k as usize >= len) as u64, (got.len() < len) as u64, threads as u64]);
            if got.len() < len {
                c.bump("runs_stopped_early");
            }
        }
    }
}

fn set_table_delivery(c: &mut Ctx, rng: &mut Rng) {
    let threads = if c.is_miri() { 2 } else { *rng.pick(&[1usize, 2, 4, 8, 32]) };
    let p = pool(threads);
    let rcp = RECIPES[rng.usize_below(RECIPES.len())];
        let spec = Spec::random(rng, rcp);
    let mut d = Json::obj();
    d.set("case", Json::s(format!("HashSet<T24>/HashTable<P8,T24> parallel iterators on state [{}], {} thread(s)", spec.describe(), threads)));
    c.describe(d);
    // sets
    {
        let mut s: SetC<T24> = build(&spec);
        let want = s.contents();
        let f = |x: &&T24| (x.id(), x.gen());
        let log = Log::new(i64::MAX, rng.next());
        p.install(|| s.0.par_iter().drive_unindexed(LogConsumer::new(&log, &f)));
        expect_same(&format!("HashSet<T24>::par_iter [{}]", spec.describe()), log.delivered(), &want);
        let fo = |x: &T24| (x.id(), x.gen());
        let log = Log::new(i64::MAX, rng.next());
        p.install(|| s.0.par_drain().drive_unindexed(LogConsumer::new(&log, &fo)));
        expect_same(&format!("HashSet<T24>::par_drain [{}]", spec.describe()), log.delivered(), &want);
        crate::check!(s.0.is_empty(), "HashSet par_drain leaves len {}", s.0.len());
        let s2: SetC<T24> = build(&spec);
        let log = Log::new(i64::MAX, rng.next());
        p.install(|| s2.0.into_par_iter().drive_unindexed(LogConsumer::new(&log, &fo)));
        expect_same(&format!("HashSet<T24>::into_par_iter [{}]", spec.describe()), log.delivered(), &want);
        c.evaluations += 3;
        c.sig_parts(&[70, want.len().min(40) as u64, threads as u64]);
    }
    // tables
    {
        let mut t: TableC<P8> = build(&spec);
        let want = t.contents();
        let f = |x: &&P8| (x.id(), x.gen());
        let log = Log::new(i64::MAX, rng.next());
        p.install(|| (&t.0).into_par_iter().drive_unindexed(LogConsumer::new(&log, &f)));
        expect_same(&format!("HashTable<P8>::par_iter [{}]", spec.describe()), log.delivered(), &want);
        let fm = |x: &&mut P8| (x.id(), x.gen());
        let log = Log::new(i64::MAX, rng.next());
        p.install(|| (&mut t.0).into_par_iter().drive_unindexed(LogConsumer::new(&log, &fm)));
        expect_same(&format!("HashTable<P8>::par_iter_mut [{}]", spec.describe()), log.delivered(), &want);
        let fo = |x: &P8| (x.id(), x.gen());
        let log = Log::new(i64::MAX, rng.next());
        p.install(|| t.0.par_drain().drive_unindexed(LogConsumer::new(&log, &fo)));
        expect_same(&format!("HashTable<P8>::par_drain [{}]", spec.describe()), log.delivered(), &want);
        crate::check!(t.0.is_empty(), "HashTable par_drain leaves len {}", t.0.len());
        let t2: TableC<T24> = build(&spec);
        let want2 = t2.contents();
        let fo2 = |x: &T24| (x.id(), x.gen());
        let log = Log::new(i64::MAX, rng.next());
        p.install(|| t2.0.into_par_iter().drive_unindexed(LogConsumer::new(&log, &fo2)));
        expect_same(&format!("HashTable<T24>::into_par_iter [{}]", spec.describe()), log.delivered(), &want2);
        c.evaluations += 4;
        c.sig_parts(&[71, want.len().min(40) as u64, threads as u64]);
    }
}

/// A consumer that panics after k items (a user callback panicking inside a parallel drain):
/// after the panic has propagated, the map must be a valid collection, nothing may be dropped twice,
/// and every element is either still in the map or has been dropped exactly once.
fn panicking_consumer<K: Elem, V: Elem>(c: &mut Ctx, rng: &mut Rng) {
    let n = if c.is_miri() { 24 } else { *rng.pick(&[5u32, 17, 40, 200, 2000]) };
    let threads = if c.is_miri() { 2 } else { *rng.pick(&[1usize, 2, 4, 16]) };
    let mut d = Json::obj();
    d.set("case", Json::s(format!("consumer panicking inside par_drain/into_par_iter of HashMap<{},{}> with {} keys on {} thread(s)", K::NAME, V::NAME, n, threads)));
    c.describe(d);
    let p = pool(threads);
    for _ in 0..4 {
        for which in 0..2u64 {
            c.evaluations += 1;
            let blocks0 = crate::ckalloc::counters().live_blocks;
            let m: M<K, V> = big_map(n, rng.chance(1, 2), rng);
            let len = m.len();
            let k = rng.below(len as u64 + 1) as i64;
            let what = format!("HashMap<{},{}>::{} with a consumer panicking at item {} of {} on {} thread(s)", K::NAME, V::NAME, if which == 0 { "into_par_iter" } else { "par_drain" }, k, len, threads);
            c.log(what.clone());
            let live0 = elem::live_now();
            let log = Log::new(i64::MAX, rng.next());
            log.panic_in.store(k, Ordering::SeqCst);
            let f = |x: &(K, V)| (x.0.id(), x.0.gen());
            let mut m = m;
            let r = if which == 0 {
                let owned = std::mem::replace(&mut m, M::with_hasher_in(PlanBH::default(), CkAlloc));
                crate::util::catch(|| p.install(|| owned.into_par_iter().drive_unindexed(LogConsumer::new(&log, &f))))
            } else {
                crate::util::catch(|| p.install(|| m.par_drain().drive_unindexed(LogConsumer::new(&log, &f))))
            };
            let panicked = r.is_err();
            if let Err(pl) = &r {
                crate::check!(crate::util::is_injected(pl), "{}: a different panic came out: {}", what, crate::util::payload_str(pl));
                c.bump("consumer_panics_propagated");
            }
            // the collection is valid: len() == number yielded, structure intact, every yielded element live
            let dump = m.verif_dump();
            crate::validate::check_safety(&dump, &what);
            let mut yielded = 0;
            for (kk, vv) in m.iter() {
                kk.check();
                vv.check();
                yielded += 1;
            }
            crate::check!(yielded == m.len(), "{}: after the panic len() = {} but iter() yields {}", what, m.len(), yielded);
            let remaining = m.len() as u64;
            m.insert(K::make(0, 4), V::make(0, 4));
            m.clear();
            drop(m);
            // the table's block went back to the allocator although the consumer panicked
            let blocks1 = crate::ckalloc::counters().live_blocks;
            crate::check!(blocks1 == blocks0, "{}: {} block(s) are still allocated after the map and the parallel iterator are gone", what, blocks1 as i64 - blocks0 as i64);
            let per = K::TRACKED as u64 + V::TRACKED as u64;
            if per > 0 {
                let live1 = elem::live_now();
                if live1 + len as u64 * per != live0 {
                    crate::viol!(
                        "{}: {} tracked element(s) neither present nor dropped after the consumer's panic (panicked: {}, {} entries were still in the map)",
                        what, (live1 + len as u64 * per) as i64 - live0 as i64, panicked, remaining
                    );
                }
            }
            c.sig_parts(&[60 + which, panicked as u64, (k == 0) as u64, threads as u64]);
        }
    }
}

/// A ParDrain that is created and dropped without being driven: the table must end up empty, every element dropped once.
fn undriven_par_drain(c: &mut Ctx, rng: &mut Rng) {
    let n = *rng.pick(&[0u32, 3, 20, 300]);
    let mut m: M<T24, T24> = big_map(n, rng.chance(1, 2), rng);
    let len = m.len() as u64;
    let live0 = elem::live_now();
    let d = m.par_drain();
    drop(d);
    c.evaluations += 1;
    c.sig_parts(&[95, n as u64]);
    crate::check!(m.is_empty() && m.iter().count() == 0, "a ParDrain dropped without being driven leaves len {}", m.len());
    crate::check!(elem::live_now() + 2 * len == live0, "a ParDrain dropped without being driven: {} of {} elements not dropped", (elem::live_now() + 2 * len) as i64 - live0 as i64, 2 * len);
    crate::validate::check_safety(&m.verif_dump(), "undriven par_drain");
    m.insert(T24::make(1, 1), T24::make(1, 1));
    crate::check!(m.len() == 1, "map unusable after an undriven ParDrain");
    let mut t: Tb<T24> = Tb::new_in(CkAlloc);
    for i in 0..n {
        t.insert_unique(splitmix64(i as u64), T24::make(i, 0), |e| splitmix64(e.id() as u64));
    }
    drop(t.par_drain());
    crate::check!(t.is_empty(), "HashTable: a ParDrain dropped without being driven leaves len {}", t.len());
}

/// The real RawIterRange::split along explicit decision trees.
fn split_trees(c: &mut Ctx, rng: &mut Rng) {
    let w = hashbrown::verif::GROUP_WIDTH;
    let groups = if rng.chance(1, 10) && !c.is_miri() { *rng.pick(&[4096usize, 8192, 16384, 32768]) } else { *rng.pick(&[1usize, 2, 3, 4, 5, 6, 8, 16, 64]) };
    // build a table with exactly `groups` scan groups (or less than one group)
    let small = rng.chance(1, 6);
    let buckets = if small { *rng.pick(&[4usize, 8]) } else { groups * w };
    let buckets = buckets.next_power_of_two();
    let cap = hashbrown::verif::bucket_mask_to_capacity(buckets - 1);
    let bh = PlanBH::new(*rng.pick(&[Plan::Mixed, Plan::Ident, Plan::Tail, Plan::Stride]), rng.next());
    let mut m: M<P8, P8> = M::with_capacity_and_hasher_in(cap, bh, CkAlloc);
    let fill = if groups >= 4096 { rng.usize_below(3000) } else { rng.usize_below(cap + 1) };
    for id in 0..fill as u32 {
        m.insert(P8::make(id, 0), P8::make(id, 0));
    }
    for id in 0..fill as u32 {
        if rng.chance(1, 4) {
            m.remove(&crate::plan::KeyRef(id));
        }
    }
    let d = m.verif_dump();
    let nb = d.bucket_mask + 1;
    let full: Vec<usize> = (0..nb).filter(|i| d.ctrl[*i] & 0x80 == 0).collect();
    let ngroups = (nb / w).max(1);
    let what = format!("split tree over {} buckets ({} groups), {} full", nb, ngroups, full.len());
    let mut dsc = Json::obj();
    dsc.set("case", Json::s(what.clone()));
    dsc.set("trees", Json::s(if ngroups <= 6 { "every decision bit string" } else { "64 random decision functions" }));
    c.describe(dsc);
    // a decision tree is a function (depth, remaining upper bound) -> split?; enumerate all by a bit string over visit order
    let n_trees: u64 = if ngroups <= 6 { 1 << (2 * ngroups).min(12) } else if ngroups >= 4096 { 6 } else { 64 };
    if ngroups >= 4096 {
        c.bump("huge_split_tables");
    }
    for t in 0..n_trees {
        let bits = if ngroups <= 6 { t } else { rng.next() };
        let mut visit = 0u32;
        let mut decide = |_depth: usize, _upper: usize| -> bool {
            let b = (bits >> (visit % 64)) & 1 == 1;
            visit += 1;
            b
        };
        let leaves = m.verif_split_leaves(&mut decide);
        c.evaluations += 1;
        let mut all: Vec<usize> = leaves.iter().flatten().copied().collect();
        all.sort();
        if all != full {
            let mut dd = all.clone();
            dd.dedup();
            crate::viol!(
                "{}: decision bits {:#x}: the {} leaves yield {} buckets, {} distinct, but {} buckets are FULL (first leaves: {:?})",
                what, bits, leaves.len(), all.len(), dd.len(), full.len(), leaves.iter().take(3).collect::<Vec<_>>()
            );
            return;
        }
        let shape: Vec<usize> = leaves.iter().map(|l| l.len()).collect();
        if t < 3 {
            c.log(format!("decision bits {:#x} -> leaf sizes {:?}", bits, shape));
        }
        let mut dg = crate::util::Digest::default();
        dg.u64(nb as u64);
        dg.u64(leaves.len() as u64);
        for s in &shape {
            dg.u64(*s as u64);
        }
        c.sig(dg.0);
        c.max("max_split_leaves", leaves.len() as u64);
    }
    if ngroups <= 6 {
        c.bump("tables_with_all_split_trees");
    }
}

/// par_extend / from_par_iter / par_eq / parallel set operations against the sequential results.
fn equivalences(c: &mut Ctx, rng: &mut Rng) {
    let threads = if c.is_miri() { 2 } else { *rng.pick(&[1usize, 3, 8]) };
    let p = pool(threads);
    let n = if c.is_miri() { 30u32 } else { *rng.pick(&[0u32, 5, 100, 3000]) };
    let bh = PlanBH::new(Plan::Mixed, rng.next());
    crate::plan::set_current(bh.plan, bh.salt);
    c.evaluations += 1;
    c.sig_parts(&[90, n as u64, threads as u64]);
    let mut dsc = Json::obj();
    dsc.set("case", Json::s(format!("par_extend/from_par_iter/par_eq/parallel set operations vs sequential, n={} on {} thread(s)", n, threads)));
    c.describe(dsc);
    // par_extend with duplicates in the input: same contents as sequential extend
    let items: Vec<(u32, u32)> = (0..n).map(|i| (rng.below(n as u64 / 2 + 1) as u32, i)).collect();
    let mut a: M<P8, P8> = M::with_hasher_in(bh, CkAlloc);
    let mut b: M<P8, P8> = M::with_hasher_in(bh, CkAlloc);
    a.extend(items.iter().map(|(k, v)| (P8::make(*k, 0), P8::make(*v, 0))));
    p.install(|| b.par_extend(items.par_iter().map(|(k, v)| (P8::make(*k, 0), P8::make(*v, 0)))));
    let keys = |m: &M<P8, P8>| {
        let mut v: Vec<u32> = m.keys().map(|k| k.id()).collect();
        v.sort();
        v
    };
    crate::check!(keys(&a) == keys(&b), "par_extend holds {} keys, sequential extend {}", b.len(), a.len());
    // from_par_iter (Global allocator only)
    let g: hashbrown::HashMap<P8, P8, PlanBH> = p.install(|| items.par_iter().map(|(k, v)| (P8::make(*k, 0), P8::make(*v, 0))).collect());
    let mut gk: Vec<u32> = g.keys().map(|k| k.id()).collect();
    gk.sort();
    crate::check!(gk == keys(&a), "from_par_iter holds {} keys, sequential {}", gk.len(), a.len());
    // par_eq vs ==
    let a2 = a.clone();
    crate::check!(p.install(|| a.par_eq(&a2)) == (a == a2), "par_eq disagrees with == on equal maps");
    let mut a3 = a.clone();
    if let Some(k) = keys(&a).first() {
        a3.insert(P8::make(*k, 0), P8::make(u32::MAX - 7, 0));
        crate::check!(p.install(|| a.par_eq(&a3)) == (a == a3), "par_eq disagrees with == on different maps");
    }
    // par_extend by reference (Copy element types), set from_par_iter / par_extend (Global allocator only)
    {
        use crate::elem::{B2, B6};
        let pairs: Vec<(B6, B2)> = (0..n).map(|i| (B6::make(i % (n / 2 + 1), 0), B2::make(i, 0))).collect();
        let mut seq: hashbrown::HashMap<B6, B2, PlanBH, CkAlloc> = hashbrown::HashMap::with_hasher_in(bh, CkAlloc);
        let mut par: hashbrown::HashMap<B6, B2, PlanBH, CkAlloc> = hashbrown::HashMap::with_hasher_in(bh, CkAlloc);
        seq.extend(pairs.iter().map(|(k, v)| (k, v)));
        p.install(|| par.par_extend(pairs.par_iter().map(|(k, v)| (k, v))));
        let ks = |m: &hashbrown::HashMap<B6, B2, PlanBH, CkAlloc>| {
            let mut v: Vec<u32> = m.keys().map(|k| k.id()).collect();
            v.sort();
            v
        };
        crate::check!(ks(&seq) == ks(&par), "par_extend by reference holds {} keys, sequential {}", par.len(), seq.len());
        let elems: Vec<B6> = (0..n).map(|i| B6::make(i % (n / 3 + 1), 0)).collect();
        let gs: hashbrown::HashSet<B6, PlanBH> = p.install(|| elems.par_iter().map(|e| B6::make(e.id(), 0)).collect());
        let mut gs2: hashbrown::HashSet<B6, PlanBH> = hashbrown::HashSet::with_hasher(bh);
        p.install(|| gs2.par_extend(elems.par_iter().map(|e| B6::make(e.id(), 0))));
        let mut gs3: hashbrown::HashSet<B6, PlanBH> = hashbrown::HashSet::with_hasher(bh);
        p.install(|| gs3.par_extend(elems.par_iter()));
        let want: std::collections::BTreeSet<u32> = elems.iter().map(|e| e.id()).collect();
        for (name, set) in [("from_par_iter", &gs), ("par_extend", &gs2), ("par_extend(&T)", &gs3)] {
            let got: std::collections::BTreeSet<u32> = set.iter().map(|e| e.id()).collect();
            crate::check!(got == want && set.len() == want.len(), "HashSet {}: {} elements, expected {}", name, set.len(), want.len());
        }
    }
    // a cloned parallel iterator delivers the same elements; Debug of the parallel iterators walks the table
    {
        let it = a.par_iter();
        let it2 = it.clone();
        let (x, y): (usize, usize) = p.install(|| (it.count(), it2.count()));
        crate::check!(x == a.len() && y == a.len(), "ParIter and its clone count {} / {} of {}", x, y, a.len());
        let (kc, vc): (usize, usize) = p.install(|| (a.par_keys().clone().count(), a.par_values().clone().count()));
        crate::check!(kc == a.len() && vc == a.len(), "cloned ParKeys/ParValues count {} / {} of {}", kc, vc, a.len());
        {
            let mut tb: Tb<P8> = Tb::new_in(CkAlloc);
            for i in 0..n {
                tb.insert_unique(splitmix64(i as u64), P8::make(i, 0), |e| splitmix64(e.id() as u64));
            }
            let pi = (&tb).into_par_iter();
            let pc = pi.clone();
            let (x, y): (usize, usize) = p.install(|| (pi.count(), pc.count()));
            crate::check!(x == tb.len() && y == tb.len(), "table ParIter and its clone count {} / {} of {}", x, y, tb.len());
            let d1 = format!("{:?}", (&tb).into_par_iter()) + &format!("{:?}", (&mut tb).into_par_iter()) + &format!("{:?}", tb.clone().into_par_iter());
            let d2 = format!("{:?}", tb.par_drain());
            crate::check!(tb.is_empty() && !d1.is_empty() && !d2.is_empty(), "table: undriven par_drain leaves len {}", tb.len());
        }
        let dbg = format!("{:?} {:?} {:?}", a.par_iter(), a.par_keys(), a.par_values());
        let mut a4 = a.clone();
        let dbg2 = format!("{:?}", a4.par_iter_mut()) + &format!("{:?}", a4.par_values_mut()) + &format!("{:?}", a4.par_drain());
        crate::check!(a4.is_empty(), "a par_drain that was created, formatted and dropped without being driven must empty the map (len {})", a4.len());
        let dbg3 = format!("{:?}", a.clone().into_par_iter());
        crate::check!(!dbg.is_empty() && !dbg2.is_empty() && !dbg3.is_empty(), "empty Debug output");
    }
    // parallel set operations
    let sa: S<P8> = (0..n).filter(|i| splitmix64(*i as u64 ^ 1) % 2 == 0).map(|i| P8::make(i, 0)).collect();
    let sb: S<P8> = (0..n).filter(|i| splitmix64(*i as u64 ^ 2) % 3 != 0).map(|i| P8::make(i, 0)).collect();
    let ids = |v: Vec<&P8>| {
        let mut x: Vec<u32> = v.into_iter().map(|e| e.id()).collect();
        x.sort();
        x
    };
    p.install(|| {
        crate::check!(ids(sa.par_union(&sb).collect()) == ids(sa.union(&sb).collect()), "par_union differs from union");
        crate::check!(ids(sa.par_intersection(&sb).collect()) == ids(sa.intersection(&sb).collect()), "par_intersection differs from intersection");
        crate::check!(ids(sa.par_difference(&sb).collect()) == ids(sa.difference(&sb).collect()), "par_difference differs from difference");
        crate::check!(ids(sa.par_symmetric_difference(&sb).collect()) == ids(sa.symmetric_difference(&sb).collect()), "par_symmetric_difference differs");
        crate::check!(sa.par_is_subset(&sb) == sa.is_subset(&sb), "par_is_subset differs");
        crate::check!(sa.par_is_superset(&sb) == sa.is_superset(&sb), "par_is_superset differs");
        crate::check!(sa.par_is_disjoint(&sb) == sa.is_disjoint(&sb), "par_is_disjoint differs");
        crate::check!(sa.par_eq(&sb) == (sa == sb), "set par_eq differs from ==");
        let sa2 = sa.clone();
        crate::check!(sa.par_eq(&sa2), "set par_eq false on a clone");
    });
    // par_extend / from_par_iter of long inputs that repeat every key (far apart): the LAST value of a key wins, exactly as
    // in a sequential extend; few threads, so that a single job collects more than any intermediate buffer holds
    if !c.is_miri() && rng.chance(1, 6) {
        let big_n = *rng.pick(&[70_000u32, 150_000, 300_000]);
        let keys = big_n / 3;
        let pairs: Vec<(u32, u32)> = (0..big_n).map(|i| (i % keys, i)).collect();
        let p2 = pool(*rng.pick(&[1usize, 1, 2, 3]));
        let mut seq: M<P8, P8> = M::with_hasher_in(bh, CkAlloc);
        seq.extend(pairs.iter().map(|(k, v)| (P8::make(*k, 0), P8::make(*v, 0))));
        let mut par: M<P8, P8> = M::with_hasher_in(bh, CkAlloc);
        p2.install(|| par.par_extend(pairs.par_iter().map(|(k, v)| (P8::make(*k, 0), P8::make(*v, 0)))));
        let from: hashbrown::HashMap<P8, P8, PlanBH> = p2.install(|| pairs.par_iter().map(|(k, v)| (P8::make(*k, 0), P8::make(*v, 0))).collect());
        let mut wrong = 0usize;
        let mut first = None;
        for (k, v) in seq.iter() {
            let a = par.get(k).map(|x| x.id());
            let b = from.get(k).map(|x| x.id());
            if a != Some(v.id()) || b != Some(v.id()) {
                wrong += 1;
                first.get_or_insert((k.id(), v.id(), a, b));
            }
        }
        crate::check!(par.len() == seq.len() && from.len() == seq.len(), "par_extend / from_par_iter of {} pairs hold {} / {} keys, sequential extend {}", big_n, par.len(), from.len(), seq.len());
        crate::check!(wrong == 0, "par_extend / from_par_iter of {} pairs over {} keys: {} keys have another value than after a sequential extend (first: {:?})", big_n, keys, wrong, first);
        c.bump("long_parallel_extends");
        c.evaluations += 1;
    }
    // the relations on structured pairs (strict subset / superset / equal / one element exchanged), also for sets far
    // above any sequential cut-off, and with both operands being the same object
    {
        let big = if c.is_miri() { 40u32 } else { *rng.pick(&[10u32, 300, 5000, 5000, 20000]) };
        let base: S<P8> = (0..big).map(|i| P8::make(i, 0)).collect();
        let mut sup = base.clone();
        sup.insert(P8::make(big + 1, 0));
        sup.insert(P8::make(big + 2, 0));
        let mut swapped = base.clone();
        swapped.remove(&KeyRef(0));
        swapped.insert(P8::make(big + 9, 0));
        let pairs: [(&str, &S<P8>, &S<P8>); 6] =
            [("strict subset", &base, &sup), ("strict superset", &sup, &base), ("same object", &base, &base), ("one element exchanged", &base, &swapped), ("exchanged, reversed", &swapped, &base), ("superset with itself", &sup, &sup)];
        p.install(|| {
            for (what, x, y) in pairs {
                c.evaluations += 1;
                crate::check!(x.par_eq(y) == (x == y), "HashSet par_eq ({}; {} vs {} elements) = {}, == gives {}", what, x.len(), y.len(), x.par_eq(y), x == y);
                crate::check!(x.par_is_subset(y) == x.is_subset(y), "HashSet par_is_subset ({}) differs from is_subset", what);
                crate::check!(x.par_is_superset(y) == x.is_superset(y), "HashSet par_is_superset ({}) differs from is_superset", what);
                crate::check!(x.par_is_disjoint(y) == x.is_disjoint(y), "HashSet par_is_disjoint ({}) differs from is_disjoint", what);
            }
        });
        c.sig_parts(&[91, big as u64]);
        // maps: the same pairs, and a value that is not equal to itself (== is false even for the same object)
        let mut fm: hashbrown::HashMap<P8, f64, PlanBH, CkAlloc> = hashbrown::HashMap::with_hasher_in(bh, CkAlloc);
        for i in 0..big.min(6000) {
            fm.insert(P8::make(i, 0), i as f64);
        }
        let fm_sup = {
            let mut x = fm.clone();
            x.insert(P8::make(big + 1, 0), 1.0);
            x
        };
        let mut nan = fm.clone();
        nan.insert(P8::make(big + 3, 0), f64::NAN);
        let nan2 = nan.clone();
        #[allow(clippy::eq_op)]
        p.install(|| {
            for (what, x, y) in [("same object", &fm, &fm), ("strict subset", &fm, &fm_sup), ("strict superset", &fm_sup, &fm), ("NaN value, same object", &nan, &nan), ("NaN value, clone", &nan, &nan2)] {
                c.evaluations += 1;
                crate::check!(x.par_eq(y) == (x == y), "HashMap par_eq ({}; {} vs {} entries) = {}, == gives {}", what, x.len(), y.len(), x.par_eq(y), x == y);
            }
        });
    }
}

pub fn run(c: &mut Ctx) {
    c.run_scenarios(|c, idx, rng| match crate::util::mix(idx) % 9 {
        8 => panicking_consumer::<T24, T24>(c, rng),
        0 | 1 => map_delivery::<T24, T24>(c, rng),
        2 => map_delivery::<P8, P8>(c, rng),
        3 => short_circuit::<T24, T24>(c, rng),
        4 => short_circuit::<P8, T24>(c, rng),
        5 => set_table_delivery(c, rng),
        6 => split_trees(c, rng),
        _ => {
            equivalences(c, rng);
            undriven_par_drain(c, rng);
        }
    });
}
