//! C06: HashTable (explicit-hash API) equals a multiset keyed by caller-supplied hashes.

use crate::ctx::Ctx;
use crate::elem::Elem;
use crate::for_elem;
use crate::mapdrv::pick_plan;
use crate::plan::PlanBH;
use crate::tabledrv::{TableDrv, TW_GENERAL};
use crate::util::{Json, Rng};

pub const C06_ELEMS: [&str; 9] = ["P8", "T24", "Z", "Z8", "B1", "L200", "B3", "L600", "L4K"];

/// HashTable of 2^18..2^20 (one time in four: 2^21..2^26) buckets holding a few dozen elements (size-gated paths, wrap-around at the table end).
fn huge_scenario<E: Elem>(c: &mut Ctx, rng: &mut Rng) {
    use crate::plan::Plan;
    let mut lg = if rng.chance(1, 4) && !c.is_miri() { *rng.pick(&[21u32, 22, 23, 23, 24, 24, 25, 26]) } else { *rng.pick(&[18u32, 18, 19, 20]) };
    while (std::mem::size_of::<E>().max(1) + 1) << lg > (3usize << 30) {
        lg -= 1;
    }
    let cap = (1usize << lg) / 8 * 7;
    let plan = *rng.pick(&[Plan::Tail, Plan::Tail, Plan::Max, Plan::Mixed, Plan::Ident, Plan::SamePos]);
    let mut d: TableDrv<E> = TableDrv::new(PlanBH::new(plan, rng.next()), 48, cap);
    d.max_live = 60;
    d.validate_every = if lg >= 25 { 3 } else if lg >= 22 { 2 } else { 1 };
    c.max("max_buckets_log2_huge", lg as u64);
    let mut desc = d.describe("C06 very large sparse table");
    desc.set("buckets_log2", Json::i(lg));
    c.describe(desc);
    c.bump("huge_table_scenarios");
    // no clone (op 14) on a table of this size; everything else incl. clear, drain, retain, extract_if
    let w: [u32; crate::tabledrv::TNOPS] = [30, 10, 10, 5, 14, 14, 3, 3, 3, 4, 0, 3, 6, 2, 0, 1, 0, 2];
    for _ in 0..40 {
        if !d.step(c, rng, &w) {
            break;
        }
    }
    c.max("max_buckets", d.facts.buckets as u64);
}

/// Few survivors behind tombstones: n colliding elements fill several probe windows, all but 1..3 are removed (so the
/// survivors sit behind windows that hold nothing but tombstones), and each survivor then goes through the
/// remove -> VacantEntry::insert chain, which writes into the slot the removal just vacated. Every stored element
/// must stay reachable by find / find_entry / iter_hash with its hash after every step.
fn survivor_case<E: Elem>(c: &mut Ctx, rng: &mut Rng) {
    use crate::plan::Plan;
    use crate::states::{Coll, TableC};
    let plan = *rng.pick(&[Plan::SamePos, Plan::Zero, Plan::Max, Plan::Palette(1, 3), Plan::Palette(2, 2), Plan::IdentOneTag, Plan::Tail]);
    let bh = PlanBH::new(plan, rng.next());
    let n = (*rng.pick(&[9u32, 17, 18, 33, 40, 70])).min(E::ID_SPACE - 1);
    let keep_n = 1 + rng.usize_below(3);
    let mut d = Json::obj();
    d.set("case", Json::s(format!("HashTable<{}>: {} colliding elements ({}), {} survivor(s), remove + same-slot reinsertion", E::NAME, n, plan.name(), keep_n)));
    c.describe(d);
    c.bump("survivor_cases");
    let mut t: TableC<E> = TableC::with_cap(bh, *rng.pick(&[0usize, 0, 28, 56]));
    for id in 0..n {
        t.put(id, 1);
    }
    // survivors: mostly the last-inserted (most displaced) elements
    let mut keep: Vec<u32> = Vec::new();
    while keep.len() < keep_n.min(n as usize) {
        let id = if rng.chance(2, 3) { n - 1 - rng.below(3.min(n as u64)) as u32 } else { rng.below(n as u64) as u32 };
        if !keep.contains(&id) {
            keep.push(id);
        }
    }
    let mut order: Vec<u32> = (0..n).filter(|id| !keep.contains(id)).collect();
    if rng.chance(1, 2) {
        order.reverse();
    }
    for id in order {
        t.del(id);
    }
    let what = format!("HashTable<{}> [{} of {} colliding elements left, {}]", E::NAME, keep.len(), n, plan.name());
    let reachable = |t: &TableC<E>, step: &str| {
        for id in &keep {
            let h = crate::plan::plan_hash(bh.plan, bh.salt, *id as u64);
            let by_find = t.0.find(h, |e| e.id() == *id).is_some();
            let by_iter_hash = t.0.iter_hash(h).any(|e| e.id() == *id);
            crate::check!(by_find && by_iter_hash, "{} {}: stored element {} is not reachable with its hash (find: {}, iter_hash: {}); len() = {}", what, step, id, by_find, by_iter_hash, t.len());
        }
        crate::check!(t.len() == keep.len(), "{} {}: len() {} != {}", what, step, t.len(), keep.len());
        t.validate(&what);
    };
    reachable(&t, "after the removals");
    for round in 0..2 {
        for id in keep.clone() {
            c.evaluations += 1;
            c.sig_parts(&[66, keep.len() as u64, (n > 16) as u64, crate::ctx::prop_salt(&plan.name()), round]);
            let h = crate::plan::plan_hash(bh.plan, bh.salt, id as u64);
            match t.0.find_entry(h, |e| e.id() == id) {
                Ok(o) => {
                    let (val, vacant) = o.remove();
                    val.check();
                    let occ = vacant.insert(val);
                    occ.get().check();
                    crate::check!(occ.get().id() == id, "{}: the reinserted entry shows {}", what, occ.get().id());
                }
                Err(_) => {
                    crate::viol!("{}: find_entry does not find stored element {}", what, id);
                    return;
                }
            }
            reachable(&t, &format!("after remove + reinsert of {}", id));
        }
    }
}

pub fn run(c: &mut Ctx) {
    c.run_scenarios(|c, idx, rng| {
        if crate::util::mix(idx ^ 0x50) % 12 == 0 {
            let e = ["P8", "T24", "B3", "L200"][rng.usize_below(4)];
            for_elem!(e, survivor_case(c, rng));
            return;
        }
        if crate::util::mix(idx) % 97 == 1 && !c.is_miri() {
            if rng.chance(1, 2) {
                huge_scenario::<crate::elem::P8>(c, rng);
            } else {
                huge_scenario::<crate::elem::T24>(c, rng);
            }
            return;
        }
        let e = C06_ELEMS[(crate::util::mix(idx) % C06_ELEMS.len() as u64) as usize];
        for_elem!(e, scenario(c, idx, rng));
    });
}

pub fn scenario<E: Elem>(c: &mut Ctx, _idx: u64, rng: &mut Rng) {
    let plan = pick_plan(rng);
    let salt = rng.next();
    let universe = *rng.pick(&[2u32, 4, 8, 16, 24, 40, 64, 200]);
    let cap = *rng.pick(&[0usize, 0, 1, 3, 7, 14, 28, 100]);
    let n_ops = if c.is_miri() { 60 } else { *rng.pick(&[60usize, 150, 400]) };
    let mut d: TableDrv<E> = TableDrv::new(PlanBH::new(plan, salt), universe, cap);
    d.max_live = 600;
    let mut desc = d.describe("C06 history");
    desc.set("with_capacity", Json::i(cap));
    desc.set("ops", Json::i(n_ops));
    c.describe(desc);
    for _ in 0..n_ops {
        if !d.step(c, rng, &TW_GENERAL) {
            break;
        }
    }
    c.digests.push((c.scen_index, d.tr.0 ^ d.contents_digest()));
    drop(d);
}
