//! C07: HashSet and its set algebra equal mathematical sets for all pairs of sets.

use crate::ckalloc::CkAlloc;
use crate::ctx::Ctx;
use crate::elem::{Elem, B1, P8, T24};
use crate::plan::{KeyRef, PlanBH};
use crate::states::{build, Coll, Set, SetC, Spec, RECIPES};
use crate::util::{catch_expected, Json, Rng};
use std::collections::BTreeSet;

/// Realises the subset `want` of the universe through its own random history on top of a random recipe state.
fn realise<T: Elem>(want: &BTreeSet<u32>, universe: u32, rng: &mut Rng) -> (SetC<T>, Spec) {
    let recipe = RECIPES[rng.usize_below(RECIPES.len())];
    let spec = Spec::random(rng, recipe);
    let mut s: SetC<T> = build(&spec);
    // churn inside and outside the universe, so that layout, capacity and tombstones differ between equal sets
    for _ in 0..rng.below(40) {
        let id = rng.below(2 * universe as u64 + 8) as u32 % T::ID_SPACE;
        if rng.chance(1, 2) {
            s.put(id, 11);
        } else {
            s.del(id);
        }
    }
    let mut order: Vec<u32> = (0..universe).collect();
    for i in (1..order.len()).rev() {
        order.swap(i, rng.usize_below(i + 1));
    }
    for id in order {
        if want.contains(&id) {
            if !s.has(id) {
                s.put(id, 12);
            }
        } else {
            s.del(id);
        }
    }
    // everything outside the universe goes
    let extra: Vec<u32> = s.contents().iter().map(|e| e.0).filter(|id| *id >= universe).collect();
    for id in extra {
        s.del(id);
    }
    // clone / clone_from are part of a construction history too: the operand may be a copy that was written over
    // another set built with a different hasher state, capacity and layout
    match rng.below(6) {
        0 => {
            let other_recipe = RECIPES[rng.usize_below(RECIPES.len())];
            let mut d: SetC<T> = build(&Spec::random(rng, other_recipe));
            d.0.clone_from(&s.0);
            drop(s);
            (d, spec)
        }
        1 => {
            let d = SetC(s.0.clone());
            drop(s);
            (d, spec)
        }
        _ => (s, spec),
    }
}

fn ids_of<'a, T: Elem + 'a>(it: impl Iterator<Item = &'a T>) -> Vec<u32> {
    let mut v: Vec<u32> = it
        .map(|x| {
            x.check();
            x.id()
        })
        .collect();
    v.sort();
    v
}

/// next()-driven collection with size_hint bracketing at every step
fn walk<'a, T: Elem + 'a, I: Iterator<Item = &'a T> + Clone>(what: &str, it: I) -> Vec<u32> {
    let total = it.clone().count();
    let mut it = it;
    let mut out = Vec::new();
    let mut remaining = total;
    loop {
        let (lo, hi) = it.size_hint();
        if lo > remaining || hi.map_or(false, |h| h < remaining) {
            crate::viol!("{}: size_hint() = ({}, {:?}) but {} elements remain", what, lo, hi, remaining);
        }
        match it.next() {
            Some(x) => {
                x.check();
                out.push(x.id());
                if remaining == 0 {
                    crate::viol!("{}: yields more elements than count()", what);
                    break;
                }
                remaining -= 1;
            }
            None => break,
        }
    }
    crate::check!(it.next().is_none(), "{}: Some after None", what);
    out.sort();
    out
}

/// One iterator object consumed in two ways: `k` elements through next(), the rest through a provided method that an
/// implementation may specialise (fold / count / last / nth / for_each / collect). Together they must be the set.
fn mixed<'a, T: Elem + 'a, I: Iterator<Item = &'a T> + Clone>(what: &str, it: I, k: usize, how: u64, want: &BTreeSet<u32>) {
    let total = it.clone().count();
    let k = k.min(total);
    let mut it = it;
    let mut out: Vec<u32> = Vec::new();
    for _ in 0..k {
        match it.next() {
            Some(x) => out.push(x.id()),
            None => {
                crate::viol!("{}: next() ended after {} of {} elements", what, out.len(), total);
                return;
            }
        }
    }
    let rest = total - k;
    match how {
        0 => {
            let v: Vec<u32> = it.fold(Vec::new(), |mut a, x| {
                a.push(x.id());
                a
            });
            crate::check!(v.len() == rest, "{}: fold() after {} next() calls visited {} elements, {} remain", what, k, v.len(), rest);
            out.extend(v);
        }
        1 => {
            let n = it.count();
            crate::check!(n == rest, "{}: count() after {} next() calls = {}, {} remain", what, k, n, rest);
            return;
        }
        2 => {
            let v: Vec<u32> = it.map(|x| x.id()).collect();
            crate::check!(v.len() == rest, "{}: collect() after {} next() calls gave {} elements, {} remain", what, k, v.len(), rest);
            out.extend(v);
        }
        3 => {
            let mut v = Vec::new();
            it.for_each(|x| v.push(x.id()));
            crate::check!(v.len() == rest, "{}: for_each() after {} next() calls visited {} elements, {} remain", what, k, v.len(), rest);
            out.extend(v);
        }
        4 => {
            let n = it.skip(1).count();
            crate::check!(n == rest.saturating_sub(1), "{}: skip(1).count() after {} next() calls = {}, {} remain", what, k, n, rest);
            return;
        }
        _ => {
            let l = it.last();
            crate::check!(l.is_some() == (rest > 0), "{}: last() after {} next() calls is_some = {}, {} remain", what, k, l.is_some(), rest);
            return;
        }
    }
    out.sort();
    expect_eq(&format!("{} ({} x next(), then the rest at once)", what, k), &out, want);
}

fn expect_eq(what: &str, got: &[u32], want: &BTreeSet<u32>) {
    let w: Vec<u32> = want.iter().copied().collect();
    if got != &w[..] {
        crate::viol!("{}: got {:?}, the mathematical result is {:?}", what, got, w);
    }
}

fn pair_case<T: Elem>(c: &mut Ctx, rng: &mut Rng) {
    let universe = *rng.pick(&[3u32, 6, 12, 24]);
    let universe = universe.min(T::ID_SPACE);
    let dens = [rng.below(101), rng.below(101)];
    let mut sa = BTreeSet::new();
    let mut sb = BTreeSet::new();
    for id in 0..universe {
        if rng.below(100) < dens[0] {
            sa.insert(id);
        }
        if rng.below(100) < dens[1] {
            sb.insert(id);
        }
    }
    // sometimes force subset / equal / disjoint relations
    match rng.below(8) {
        0 => sb = sa.clone(),
        1 => sb = sa.iter().copied().filter(|_| rng.chance(1, 2)).collect(),
        2 => sa = sb.iter().copied().filter(|_| rng.chance(1, 2)).collect(),
        3 => sb = (0..universe).filter(|i| !sa.contains(i)).collect(),
        _ => {}
    }
    let (a, aspec) = realise::<T>(&sa, universe, rng);
    let (b, bspec) = realise::<T>(&sb, universe, rng);
    crate::plan::set_current(aspec.plan, aspec.salt);
    let what = format!("HashSet<{}> A={:?} [{}] B={:?} [{}]", T::NAME, sa, aspec.describe(), sb, bspec.describe());
    let mut d = Json::obj();
    d.set("A", Json::s(format!("{:?}", sa)));
    d.set("B", Json::s(format!("{:?}", sb)));
    d.set("A_state", Json::s(aspec.describe()));
    d.set("B_state", Json::s(bspec.describe()));
    c.describe(d);
    c.evaluations += 1;
    let rel = (sa.len() > sb.len()) as u64 + 2 * (sa.len() == sb.len()) as u64;
    c.sig_parts(&[rel, sa.is_subset(&sb) as u64, sb.is_subset(&sa) as u64, sa.is_disjoint(&sb) as u64, sa.is_empty() as u64, sb.is_empty() as u64, crate::ctx::prop_salt(T::NAME), universe as u64]);
    c.bump(["A_smaller", "A_larger", "same_size", "same_size"][rel as usize]);
    let (ah, bh) = (&a.0, &b.0);
    crate::check!(ids_of(ah.iter()) == sa.iter().copied().collect::<Vec<_>>(), "{}: realising A failed", what);

    let uni: BTreeSet<u32> = sa.union(&sb).copied().collect();
    let int: BTreeSet<u32> = sa.intersection(&sb).copied().collect();
    let dif: BTreeSet<u32> = sa.difference(&sb).copied().collect();
    let sym: BTreeSet<u32> = sa.symmetric_difference(&sb).copied().collect();
    // iterators: next() with size_hint bracketing, and fold()
    expect_eq(&format!("{} union (next)", what), &walk("union", ah.union(bh)), &uni);
    expect_eq(&format!("{} intersection (next)", what), &walk("intersection", ah.intersection(bh)), &int);
    expect_eq(&format!("{} difference (next)", what), &walk("difference", ah.difference(bh)), &dif);
    expect_eq(&format!("{} symmetric_difference (next)", what), &walk("symmetric_difference", ah.symmetric_difference(bh)), &sym);
    {
        // next() and the provided methods mixed on one iterator object
        let k = rng.usize_below(uni.len() + 2);
        let how = rng.below(6);
        mixed(&format!("{} union", what), ah.union(bh), k, how, &uni);
        mixed(&format!("{} intersection", what), ah.intersection(bh), k, how, &int);
        mixed(&format!("{} difference", what), ah.difference(bh), k, how, &dif);
        mixed(&format!("{} symmetric_difference", what), ah.symmetric_difference(bh), k, how, &sym);
        mixed(&format!("{} iter", what), ah.iter(), k, how, &sa);
    }
    let fold_ids = |it: &mut dyn Iterator<Item = &T>| -> Vec<u32> {
        let mut v = Vec::new();
        it.for_each(|x| v.push(x.id()));
        v.sort();
        v
    };
    expect_eq(&format!("{} union (fold)", what), &ah.union(bh).fold(Vec::new(), |mut v, x| { v.push(x.id()); v.sort(); v }), &uni);
    expect_eq(&format!("{} intersection (fold)", what), &ah.intersection(bh).fold(Vec::new(), |mut v, x| { v.push(x.id()); v.sort(); v }), &int);
    expect_eq(&format!("{} difference (fold)", what), &ah.difference(bh).fold(Vec::new(), |mut v, x| { v.push(x.id()); v.sort(); v }), &dif);
    expect_eq(&format!("{} symmetric_difference (for_each)", what), &fold_ids(&mut ah.symmetric_difference(bh)), &sym);
    // the same object on both sides (aliased operands): A op A
    {
        let e: BTreeSet<u32> = BTreeSet::new();
        expect_eq(&format!("{} A union A", what), &walk("union(self)", ah.union(ah)), &sa);
        expect_eq(&format!("{} A intersection A", what), &walk("intersection(self)", ah.intersection(ah)), &sa);
        expect_eq(&format!("{} A difference A", what), &walk("difference(self)", ah.difference(ah)), &e);
        expect_eq(&format!("{} A symmetric_difference A", what), &walk("symmetric_difference(self)", ah.symmetric_difference(ah)), &e);
        crate::check!(ah.is_subset(ah) && ah.is_superset(ah), "{}: A is not a subset/superset of itself", what);
        crate::check!(ah.is_disjoint(ah) == sa.is_empty(), "{}: A.is_disjoint(A) = {} for |A| = {}", what, ah.is_disjoint(ah), sa.len());
        crate::check!(bh.is_disjoint(bh) == sb.is_empty(), "{}: B.is_disjoint(B) = {} for |B| = {}", what, bh.is_disjoint(bh), sb.len());
        #[allow(clippy::eq_op)]
        {
            crate::check!(ah == ah, "{}: A != A", what);
        }
    }
    // predicates
    crate::check!(ah.is_subset(bh) == sa.is_subset(&sb), "{}: is_subset = {}", what, ah.is_subset(bh));
    crate::check!(ah.is_superset(bh) == sa.is_superset(&sb), "{}: is_superset = {}", what, ah.is_superset(bh));
    crate::check!(ah.is_disjoint(bh) == sa.is_disjoint(&sb), "{}: is_disjoint = {}", what, ah.is_disjoint(bh));
    crate::check!((ah == bh) == (sa == sb), "{}: == is {}", what, ah == bh);
    crate::check!((bh == ah) == (sa == sb), "{}: == is not symmetric", what);
    // operator forms
    let o: Set<T> = ah | bh;
    expect_eq(&format!("{} A | B", what), &ids_of(o.iter()), &uni);
    let o: Set<T> = ah & bh;
    expect_eq(&format!("{} A & B", what), &ids_of(o.iter()), &int);
    let o: Set<T> = ah ^ bh;
    expect_eq(&format!("{} A ^ B", what), &ids_of(o.iter()), &sym);
    let o: Set<T> = ah - bh;
    expect_eq(&format!("{} A - B", what), &ids_of(o.iter()), &dif);
    drop(o);
    // assigning forms, each on a fresh clone of A (so the layout under test is A's)
    let mut x = ah.clone();
    x |= bh;
    expect_eq(&format!("{} A |= B", what), &ids_of(x.iter()), &uni);
    let mut x = ah.clone();
    x &= bh;
    expect_eq(&format!("{} A &= B", what), &ids_of(x.iter()), &int);
    let mut x = ah.clone();
    x ^= bh;
    expect_eq(&format!("{} A ^= B", what), &ids_of(x.iter()), &sym);
    let mut x = ah.clone();
    x -= bh;
    expect_eq(&format!("{} A -= B", what), &ids_of(x.iter()), &dif);
    SetC(x).validate(&what);
    a.validate(&what);
    b.validate(&what);
}

fn point_ops<T: Elem>(c: &mut Ctx, rng: &mut Rng) {
    let universe = 16u32.min(T::ID_SPACE);
    let mut model: BTreeSet<u32> = (0..universe).filter(|_| rng.chance(1, 2)).collect();
    let (mut s, spec) = realise::<T>(&model, universe, rng);
    // remember which instance (gen) is stored per id
    let mut gens: std::collections::BTreeMap<u32, u16> = s.contents().into_iter().collect();
    let what = format!("HashSet<{}> [{}]", T::NAME, spec.describe());
    for step in 0..60u16 {
        let id = rng.below(universe as u64 + 2) as u32 % T::ID_SPACE;
        let g = if T::HAS_GEN { 500 + step } else { 0 };
        c.evaluations += 1;
        let present = model.contains(&id);
        let op = rng.below(9);
        c.sig_parts(&[50 + op, present as u64]);
        match op {
            0 => {
                let r = s.0.insert(T::make(id, g));
                crate::check!(r == !present, "{}: insert({}) returned {} (present before: {})", what, id, r, present);
                if !present {
                    model.insert(id);
                    gens.insert(id, g);
                }
            }
            1 => {
                let r = s.0.replace(T::make(id, g));
                match (&r, present) {
                    (Some(old), true) => {
                        old.check();
                        crate::check!(old.id() == id && old.gen() == gens[&id], "{}: replace({}) returned {:?}, stored instance was g{}", what, id, old, gens[&id]);
                    }
                    (None, false) => {}
                    _ => crate::viol!("{}: replace({}) returned {:?}, present before: {}", what, id, r.as_ref().map(|x| x.id()), present),
                }
                model.insert(id);
                gens.insert(id, g);
                let now = s.0.get(&KeyRef(id)).map(|x| x.gen());
                crate::check!(now == Some(g), "{}: after replace({}) the set holds instance {:?}, not the new one g{}", what, id, now, g);
            }
            2 => {
                let r = s.0.take(&KeyRef(id));
                crate::check!(r.is_some() == present, "{}: take({}) = {:?}", what, id, r.as_ref().map(|x| x.id()));
                if let Some(x) = r {
                    x.check();
                    crate::check!(x.gen() == gens[&id], "{}: take({}) returned another instance", what, id);
                }
                model.remove(&id);
                gens.remove(&id);
            }
            3 => {
                let r = s.0.remove(&KeyRef(id));
                crate::check!(r == present, "{}: remove({}) = {}", what, id, r);
                model.remove(&id);
                gens.remove(&id);
            }
            4 => {
                let stored = {
                    let r = s.0.get_or_insert(T::make(id, g));
                    r.check();
                    (r.id(), r.gen())
                };
                if present {
                    crate::check!(stored == (id, gens[&id]), "{}: get_or_insert({}) did not keep the old instance", what, id);
                } else {
                    crate::check!(stored == (id, g), "{}: get_or_insert({}) returned {:?}", what, id, stored);
                    model.insert(id);
                    gens.insert(id, g);
                }
            }
            5 => {
                // lawful closure
                let mut called = false;
                let stored = {
                    let r = s.0.get_or_insert_with(&KeyRef(id), |q| {
                        called = true;
                        T::make(q.0, g)
                    });
                    (r.id(), r.gen())
                };
                crate::check!(called == !present, "{}: get_or_insert_with({}) called its closure: {} (present {})", what, id, called, present);
                if !present {
                    crate::check!(stored == (id, g), "{}: get_or_insert_with({}) returned {:?}", what, id, stored);
                    model.insert(id);
                    gens.insert(id, g);
                }
            }
            6 => {
                // a closure that produces a NON-equivalent value must be refused with a panic, and the set must not change
                if !present && universe > 1 {
                    let other = (id + 1) % universe;
                    let before = s.contents();
                    let len = s.len();
                    let set = &mut s.0;
                    let r = catch_expected(move || {
                        let _ = set.get_or_insert_with(&KeyRef(id), |_| T::make(other, g));
                    });
                    crate::check!(r.is_err(), "{}: get_or_insert_with({}) stored a value that is not equivalent to the probe instead of panicking", what, id);
                    crate::check!(s.len() == len && s.contents() == before, "{}: the refused get_or_insert_with({}) changed the set (len {} -> {})", what, id, len, s.len());
                    c.bump("refusals_checked");
                }
            }
            7 => {
                let r = s.0.contains(&KeyRef(id));
                let r2 = s.0.get(&T::make(id, g)).is_some();
                crate::check!(r == present && r2 == present, "{}: contains/get({}) = {}/{}", what, id, r, r2);
            }
            _ if rng.chance(1, 3) => {
                // Entry combinators, Debug formatting, From<HashMap<T, ()>>
                use hashbrown::hash_set::Entry;
                match rng.below(4) {
                    0 => {
                        let e = s.0.entry(T::make(id, g));
                        e.get().check();
                        crate::check!(e.get().id() == id, "{}: Entry::get() shows {:?} for {}", what, e.get(), id);
                        let o = e.insert();
                        o.get().check();
                        if !present {
                            model.insert(id);
                            gens.insert(id, g);
                        }
                    }
                    1 => {
                        s.0.entry(T::make(id, g)).or_insert();
                        if !present {
                            model.insert(id);
                            gens.insert(id, g);
                        }
                    }
                    2 => {
                        let a = format!("{:?}", s.0);
                        let b = format!("{:?}", s.0.iter()) + &format!("{:?}", s.0.entry(T::make(id, g)));
                        let other: crate::states::Set<T> = crate::states::Set::with_hasher_in(s.bh(), CkAlloc);
                        let c2 = format!("{:?} {:?} {:?} {:?}", s.0.union(&other), s.0.intersection(&other), s.0.difference(&other), s.0.symmetric_difference(&other));
                        crate::check!(!a.is_empty() && !b.is_empty() && !c2.is_empty(), "empty Debug output");
                        let mut cl = s.0.clone();
                        let mut d = cl.drain();
                        d.next();
                        let _ = format!("{:?}", d);
                        drop(d);
                        let mut it = cl.into_iter();
                        it.next();
                        let _ = format!("{:?}", it);
                    }
                    _ => {
                        // HashSet::from(HashMap<T, ()>) keeps exactly the keys
                        let mut m: hashbrown::HashMap<T, (), PlanBH, CkAlloc> = hashbrown::HashMap::with_hasher_in(s.bh(), CkAlloc);
                        for e in s.0.iter() {
                            m.insert(T::make(e.id(), e.gen()), ());
                        }
                        let from: crate::states::Set<T> = hashbrown::HashSet::from(m);
                        crate::check!(from == s.0 && s.0 == from, "{}: HashSet::from(HashMap) != the set it was built from", what);
                    }
                }
            }
            _ => {
                use hashbrown::hash_set::Entry;
                match s.0.entry(T::make(id, g)) {
                    Entry::Occupied(o) => {
                        crate::check!(present, "{}: entry({}) Occupied for an absent value", what, id);
                        o.get().check();
                        if rng.chance(1, 2) {
                            o.remove().check();
                            model.remove(&id);
                            gens.remove(&id);
                        }
                    }
                    Entry::Vacant(v) => {
                        crate::check!(!present, "{}: entry({}) Vacant for a present value", what, id);
                        v.get().check();
                        if rng.chance(1, 2) {
                            v.insert();
                            model.insert(id);
                            gens.insert(id, g);
                        } else if rng.chance(1, 2) {
                            v.into_value().check();
                        }
                    }
                }
            }
        }
        let got: Vec<u32> = s.contents().iter().map(|e| e.0).collect();
        if got != model.iter().copied().collect::<Vec<_>>() {
            crate::viol!("{}: after op {} on {} the set is {:?}, the model {:?}", what, op, id, got, model);
            return;
        }
        crate::check!(s.len() == model.len(), "{}: len {} != {}", what, s.len(), model.len());
    }
    s.validate(&what);
    let _ = CkAlloc;
    let _ = PlanBH::default();
}

pub fn run(c: &mut Ctx) {
    // this property rebuilds every state many times: very large sparse states are capped at 2^24 buckets
    crate::states::set_huge_max_lg(24);
    c.run_scenarios(|c, idx, rng| match crate::util::mix(idx) % 5 {
        0 => pair_case::<T24>(c, rng),
        1 => pair_case::<P8>(c, rng),
        2 => pair_case::<B1>(c, rng),
        3 => point_ops::<T24>(c, rng),
        _ => point_ops::<P8>(c, rng),
    });
}
