//! Scenario runner: argument parsing, budgets, breadcrumbs, replay descriptors,
//! statistics (M7/M8) and the shard summary written for the driver.

use crate::util::{Json, Rng};
use crate::{ckalloc, elem, fuse};
use std::collections::{BTreeMap, BTreeSet, VecDeque};
use std::io::Write;
use std::time::Instant;

#[derive(Clone, Copy, Debug, PartialEq, Eq)]
pub enum Tier {
    Quick,
    Thorough,
}

pub struct Ctx {
    pub prop: String,
    pub tier: Tier,
    pub seed: u64,
    pub shard: u64,
    pub nshards: u64,
    pub lane: String,
    pub max_ms: u64,
    pub max_scen: u64,
    pub only: Option<u64>,
    pub out: Option<String>,
    pub crumb: Option<String>,
    pub replay_dir: String,
    pub extra: BTreeMap<String, String>,
    start: Instant,
    // statistics
    pub evaluations: u64,
    pub scenarios: u64,
    sigs: BTreeSet<u64>,
    pub counters: BTreeMap<String, u64>,
    pub maxima: BTreeMap<String, u64>,
    samples: Vec<Json>,
    pub digests: Vec<(u64, u64)>,
    // current scenario
    pub scen_index: u64,
    scen_desc: Json,
    oplog: VecDeque<String>,
    pub leak_ok: bool,
    pub log_on: bool,
}

pub fn parse_args(args: &[String]) -> Ctx {
    let mut c = Ctx {
        prop: String::new(),
        tier: Tier::Quick,
        seed: 1,
        shard: 0,
        nshards: 1,
        lane: "dbg".into(),
        max_ms: 20_000,
        max_scen: u64::MAX,
        only: None,
        out: None,
        crumb: None,
        replay_dir: "/verif/replays".into(),
        extra: BTreeMap::new(),
        start: Instant::now(),
        evaluations: 0,
        scenarios: 0,
        sigs: BTreeSet::new(),
        counters: BTreeMap::new(),
        maxima: BTreeMap::new(),
        samples: Vec::new(),
        digests: Vec::new(),
        scen_index: 0,
        scen_desc: Json::Null,
        oplog: VecDeque::new(),
        leak_ok: false,
        log_on: true,
    };
    let mut i = 0;
    while i < args.len() {
        let a = args[i].as_str();
        let mut val = || {
            i += 1;
            args.get(i).cloned().unwrap_or_default()
        };
        match a {
            "--prop" => c.prop = val(),
            "--tier" => c.tier = if val() == "thorough" { Tier::Thorough } else { Tier::Quick },
            "--seed" => c.seed = val().parse().unwrap_or(1),
            "--shard" => {
                let v = val();
                let mut it = v.split('/');
                c.shard = it.next().and_then(|x| x.parse().ok()).unwrap_or(0);
                c.nshards = it.next().and_then(|x| x.parse().ok()).unwrap_or(1).max(1);
            }
            "--lane" => c.lane = val(),
            "--max-ms" => c.max_ms = val().parse().unwrap_or(20_000),
            "--max-scen" => c.max_scen = val().parse().unwrap_or(u64::MAX),
            "--only" => c.only = val().parse().ok(),
            "--out" => c.out = Some(val()),
            "--crumb" => c.crumb = Some(val()),
            "--replay-dir" => c.replay_dir = val(),
            other if other.starts_with("--x-") => {
                let k = other[4..].to_string();
                let v = val();
                c.extra.insert(k, v);
            }
            other => {
                if c.prop.is_empty() && !other.starts_with('-') {
                    c.prop = other.to_string();
                } else {
                    eprintln!("hbverif: unknown argument {}", other);
                    std::process::exit(2);
                }
            }
        }
        i += 1;
    }
    c.log_on = c.lane != "miri" || c.only.is_some();
    c
}

impl Ctx {
    pub fn elapsed_ms(&self) -> u64 {
        self.start.elapsed().as_millis() as u64
    }
    pub fn thorough(&self) -> bool {
        self.tier == Tier::Thorough
    }
    pub fn is_miri(&self) -> bool {
        self.lane == "miri"
    }
    pub fn xarg(&self, k: &str) -> Option<&str> {
        self.extra.get(k).map(|s| s.as_str())
    }
    pub fn bump(&mut self, k: &str) {
        *self.counters.entry(k.to_string()).or_insert(0) += 1;
    }
    pub fn add(&mut self, k: &str, n: u64) {
        *self.counters.entry(k.to_string()).or_insert(0) += n;
    }
    pub fn max(&mut self, k: &str, n: u64) {
        let e = self.maxima.entry(k.to_string()).or_insert(0);
        if n > *e {
            *e = n;
        }
    }
    /// Records one distinct non-trivial signature.
    pub fn sig(&mut self, s: u64) {
        if self.sigs.len() < 2_000_000 {
            self.sigs.insert(s);
        }
    }
    pub fn sig_parts(&mut self, parts: &[u64]) {
        let mut d = crate::util::Digest::default();
        for p in parts {
            d.u64(*p);
        }
        self.sig(d.0);
    }
    pub fn log(&mut self, s: String) {
        if self.oplog.len() >= 80 {
            self.oplog.pop_front();
        }
        self.oplog.push_back(s);
    }
    pub fn describe(&mut self, d: Json) {
        self.scen_desc = d;
    }
    pub fn sample(&mut self, j: Json) {
        if self.samples.len() < 4 {
            self.samples.push(j);
        }
    }

    /// Runs scenarios `shard, shard+nshards, ...` until the budget is used up.
    /// `f` gets the context, the global scenario index and a PRNG that is a
    /// pure function of (seed, property, scenario index).
    pub fn run_scenarios(&mut self, mut f: impl FnMut(&mut Ctx, u64, &mut Rng)) {
        let mut k = 0u64;
        loop {
            let idx = match self.only {
                Some(o) => o,
                None => k * self.nshards + self.shard,
            };
            if self.only.is_none() && (self.scenarios >= self.max_scen || self.elapsed_ms() >= self.max_ms) {
                break;
            }
            self.begin_scenario(idx);
            let t_scen = self.elapsed_ms();
            let mut rng = Rng::derive(self.seed, prop_salt(&self.prop), idx, 0x5ce7);
            let r = {
                let this = &mut *self;
                let f = &mut f;
                let rng = &mut rng;
                crate::util::catch(move || f(this, idx, rng))
            };
            if let Err(p) = r {
                // A panic that escaped a scenario: hashbrown's own debug assertions and unexpected library
                // panics are violations; a panic raised by harness code is a harness error (inconclusive).
                let lp = crate::util::last_panic();
                let msg = if crate::util::is_injected(&p) { "injected panic escaped".to_string() } else { lp.clone() };
                let at = lp.rsplit(" at ").next().unwrap_or("");
                if (at.starts_with("src/") || at.contains("harness/src/")) && !crate::util::is_injected(&p) {
                    println!("HBV-HARNESS-ERROR scenario {} panicked in harness code: {}", idx, msg);
                    self.write_summary(None);
                    let _ = std::io::stdout().flush();
                    std::process::exit(4);
                }
                crate::viol!("panic escaped from the library during scenario {}: {}", idx, msg);
                self.leak_ok = true;
            }
            // a scenario that takes a large part of the shard's budget is worth knowing about (workload sizing)
            let took = self.elapsed_ms().saturating_sub(t_scen);
            if took > 4000 && !crate::util::slow_lane() {
                eprintln!("HBV-SLOW scenario {} took {} ms: {}", idx, took, self.scen_desc.to_string());
                self.max("slowest_scenario_ms", took);
            }
            self.end_scenario();
            k += 1;
            if self.only.is_some() {
                break;
            }
        }
    }

    pub fn begin_scenario(&mut self, idx: u64) {
        self.scen_index = idx;
        self.scen_desc = Json::Null;
        self.oplog.clear();
        self.leak_ok = false;
        fuse::disarm();
        fuse::reset_counts();
        crate::plan::chaos_off();
        elem::reg_reset();
        ckalloc::forget_leaks();
        ckalloc::take_events();
        ckalloc::refuse_in(None);
        ckalloc::set_byte_cap(ckalloc::HARD_CAP);
        ckalloc::set_current_id(0);
        if let Some(p) = &self.crumb {
            let _ = std::fs::write(p, format!("{} {} {}/{} {}\n", self.prop, idx, self.shard, self.nshards, self.seed));
        }
    }

    /// End-of-scenario conservation checks (M1 + M2) and violation handling.
    pub fn end_scenario(&mut self) {
        fuse::disarm();
        crate::plan::chaos_off();
        ckalloc::refuse_in(None);
        ckalloc::check_live_canaries();
        ckalloc::flush_quarantine();
        let live = elem::live_now();
        let blocks = ckalloc::counters().live_blocks;
        if !self.leak_ok {
            if live != 0 {
                crate::viol!(
                    "conservation: {} element(s) neither dropped nor held at scenario end (leak); first live serials +{:?}",
                    live,
                    elem::reg_live_serials(8)
                );
            }
            if blocks != 0 {
                crate::viol!(
                    "conservation: {} block(s) still allocated at scenario end: {:?}",
                    blocks,
                    ckalloc::live_blocks().iter().take(4).collect::<Vec<_>>()
                );
            }
        }
        self.scenarios += 1;
        if self.scenarios <= 2 || (self.samples.len() < 3 && self.scenarios % 7 == 0) {
            let mut s = Json::obj();
            s.set("scenario", Json::i(self.scen_index));
            s.set("desc", self.scen_desc.clone());
            s.set("last_ops", Json::Arr(self.oplog.iter().rev().take(12).rev().map(|x| Json::s(x.clone())).collect()));
            self.sample(s);
        }
        self.fail_if_violated();
    }

    /// If any monitor recorded a violation: write the replay descriptor, the summary, and exit 3.
    pub fn fail_if_violated(&mut self) {
        if !crate::util::has_violation() {
            return;
        }
        let v = crate::util::take_violations();
        let mut d = Json::obj();
        d.set("property", Json::s(self.prop.clone()));
        d.set("lane", Json::s(self.lane.clone()));
        d.set("seed", Json::i(self.seed));
        d.set("tier", Json::s(if self.thorough() { "thorough" } else { "quick" }));
        d.set("shard", Json::s(format!("{}/{}", self.shard, self.nshards)));
        d.set("scenario", Json::i(self.scen_index));
        d.set("desc", self.scen_desc.clone());
        d.set("violations", Json::Arr(v.iter().map(|x| Json::s(x.clone())).collect()));
        d.set("last_ops", Json::Arr(self.oplog.iter().map(|x| Json::s(x.clone())).collect()));
        let mut x = Json::obj();
        for (k, val) in &self.extra {
            x.set(k, Json::s(val.clone()));
        }
        d.set("extra", x);
        let _ = std::fs::create_dir_all(&self.replay_dir);
        let path = format!("{}/{}-{}-{}-{}.json", self.replay_dir, self.prop, self.lane, self.seed, self.scen_index);
        let _ = std::fs::write(&path, d.to_string());
        println!("HBV-VIOLATION property={} replay={}", self.prop, path);
        for m in &v {
            println!("HBV-DETAIL {}", m);
        }
        self.write_summary(Some((&path, &v)));
        let _ = std::io::stdout().flush();
        std::process::exit(3);
    }

    pub fn write_summary(&self, violation: Option<(&str, &Vec<String>)>) {
        let mut j = Json::obj();
        j.set("property", Json::s(self.prop.clone()));
        j.set("lane", Json::s(self.lane.clone()));
        j.set("seed", Json::i(self.seed));
        j.set("shard", Json::i(self.shard));
        j.set("scenarios", Json::i(self.scenarios));
        j.set("evaluations", Json::i(self.evaluations));
        j.set("distinct", Json::i(self.sigs.len()));
        // ship the signatures themselves (capped) so the driver can union across shards
        j.set("sigs", Json::Arr(self.sigs.iter().take(200_000).map(|s| Json::i(*s)).collect()));
        let mut c = Json::obj();
        for (k, v) in &self.counters {
            c.set(k, Json::i(*v));
        }
        j.set("counters", c);
        let mut m = Json::obj();
        for (k, v) in &self.maxima {
            m.set(k, Json::i(*v));
        }
        j.set("maxima", m);
        j.set("samples", Json::Arr(self.samples.clone()));
        j.set(
            "digests",
            Json::Arr(self.digests.iter().map(|(i, d)| Json::Arr(vec![Json::i(*i), Json::i(*d)])).collect()),
        );
        j.set("elapsed_ms", Json::i(self.elapsed_ms()));
        if let Some((p, v)) = violation {
            j.set("violation_replay", Json::s(p));
            j.set("violations", Json::Arr(v.iter().map(|x| Json::s(x.clone())).collect()));
        }
        let s = j.to_string();
        match &self.out {
            Some(p) => {
                let _ = std::fs::write(p, s);
            }
            None => println!("HBV-SUMMARY {}", s),
        }
    }
}

pub fn prop_salt(p: &str) -> u64 {
    let mut d = crate::util::Digest::default();
    d.bytes(p.as_bytes());
    d.0
}

/// `oplog!(ctx, "fmt", args)`: appends to the scenario's op log (skipped in the Miri lane unless replaying).
#[macro_export]
macro_rules! oplog {
    ($ctx:expr, $($arg:tt)*) => { if $ctx.log_on { $ctx.log(format!($($arg)*)); } };
}
