//! M3: hash plans. A plan fixes the position bits (low bits, `h1`) and the 7 tag
//! bits (top bits) of the hash of key id `i` independently.

use crate::fuse::{self, Class};
use crate::util::{splitmix64, Rng};
use std::hash::{BuildHasher, Hash, Hasher};
use std::sync::atomic::{AtomicBool, AtomicU64, Ordering};
use std::sync::Mutex;

/// gen given to keys that the library creates itself through `Into` (entry_ref)
pub const INTO_GEN: u16 = 0xBEEF;

#[derive(Clone, Copy, Debug, PartialEq, Eq)]
pub enum Plan {
    Mixed,
    Zero,
    Max,
    /// position = id, tag mixed: contiguous runs, guaranteed tombstones
    Ident,
    /// one position, tag = id % 128
    SamePos,
    /// one tag, positions mixed
    SameTag,
    /// p positions x t tags
    Palette(u8, u8),
    /// position bits all ones: always the last bucket (wrap-around, mirror bytes)
    Tail,
    /// position = id * 16: one element per group start
    Stride,
    /// position = id, tag constant: dense runs with every tag equal (maximal false tag hits)
    IdentOneTag,
    /// a fresh pseudo-random answer on every call (C05 only)
    Chaos,
    /// position = id like `Ident` until `chaos_late(true)` is called, a fresh pseudo-random answer afterwards (C05:
    /// broken hashing sets in on a table that was built lawfully, e.g. a tombstone-saturated one)
    IdentThenChaos,
}

pub const LAWFUL_PLANS: [Plan; 13] = [
    Plan::Mixed,
    Plan::Zero,
    Plan::Max,
    Plan::Ident,
    Plan::SamePos,
    Plan::SameTag,
    Plan::Palette(2, 2),
    Plan::Palette(3, 1),
    Plan::Palette(1, 3),
    Plan::Palette(4, 4),
    Plan::Tail,
    Plan::Stride,
    Plan::IdentOneTag,
];

impl Plan {
    pub fn name(self) -> String {
        match self {
            Plan::Palette(p, t) => format!("palette{}x{}", p, t),
            other => format!("{:?}", other).to_lowercase(),
        }
    }
    pub fn from_name(s: &str) -> Option<Plan> {
        for p in LAWFUL_PLANS.iter().chain([Plan::Chaos, Plan::IdentThenChaos].iter()) {
            if p.name() == s {
                return Some(*p);
            }
        }
        None
    }
    /// Plans under which a probe for an absent key walks past (almost) every stored element: bulk inserts are
    /// quadratic there, so workloads keep them to a few hundred elements.
    pub fn is_clustering(self) -> bool {
        matches!(self, Plan::Zero | Plan::Max | Plan::SamePos | Plan::Palette(..) | Plan::Tail | Plan::IdentOneTag)
    }
    pub fn is_lawful(self) -> bool {
        self != Plan::Chaos && self != Plan::IdentThenChaos
    }
}

fn compose(pos: u64, tag: u64) -> u64 {
    ((tag & 0x7f) << 57) | (pos & ((1u64 << 57) - 1))
}

pub fn plan_hash(plan: Plan, salt: u64, id: u64) -> u64 {
    let m = splitmix64(id ^ salt);
    match plan {
        Plan::Mixed => m,
        Plan::Zero => 0,
        Plan::Max => u64::MAX,
        Plan::Ident => compose(id, m >> 57),
        Plan::SamePos => compose(salt & 0xffff, id % 128),
        Plan::SameTag => compose(m, salt >> 57),
        Plan::Palette(p, t) => {
            let p = p.max(1) as u64;
            let t = t.max(1) as u64;
            let pos = splitmix64(salt ^ (id % p)) & 0xffff;
            let tag = splitmix64(salt.rotate_left(17) ^ ((id / p) % t)) >> 57;
            compose(pos, tag)
        }
        Plan::Tail => compose((1u64 << 57) - 1, m >> 57),
        Plan::Stride => compose(id.wrapping_mul(16), m >> 57),
        Plan::IdentOneTag => compose(id, salt >> 57),
        Plan::Chaos => chaos_u64(),
        Plan::IdentThenChaos => {
            if CHAOS_LATE.load(Ordering::Relaxed) {
                chaos_u64()
            } else {
                compose(id, m >> 57)
            }
        }
    }
}

// --- chaos state (C05): answers are drawn from a process-global PRNG -------------

static CHAOS: Mutex<Option<Rng>> = Mutex::new(None);
static CHAOS_EQ: AtomicBool = AtomicBool::new(false);
static CHAOS_LATE: AtomicBool = AtomicBool::new(false);

/// Switches `Plan::IdentThenChaos` from lawful to chaotic hashing.
pub fn chaos_late(on: bool) {
    CHAOS_LATE.store(on, Ordering::SeqCst);
}
/// per-mille probability that Eq lies when chaos-eq is on
static CHAOS_EQ_PERMILLE: AtomicU64 = AtomicU64::new(0);
/// how many distinct hash values chaos hashing draws from (small => collisions and moves both happen)
static CHAOS_PALETTE: AtomicU64 = AtomicU64::new(16);

pub fn chaos_seed(seed: u64, eq_permille: u64, palette: u64) {
    *CHAOS.lock().unwrap_or_else(|p| p.into_inner()) = Some(Rng::new(seed));
    CHAOS_EQ.store(eq_permille > 0, Ordering::SeqCst);
    CHAOS_EQ_PERMILLE.store(eq_permille, Ordering::SeqCst);
    CHAOS_PALETTE.store(palette.max(1), Ordering::SeqCst);
}
pub fn chaos_off() {
    CHAOS_EQ.store(false, Ordering::SeqCst);
    CHAOS_LATE.store(false, Ordering::SeqCst);
}
fn chaos_raw() -> u64 {
    let mut g = CHAOS.lock().unwrap_or_else(|p| p.into_inner());
    g.get_or_insert_with(|| Rng::new(1)).next()
}
fn chaos_u64() -> u64 {
    let pal = CHAOS_PALETTE.load(Ordering::Relaxed);
    let r = chaos_raw();
    let k = r % pal;
    // positions from a small set, tags from a small set, independently
    compose(splitmix64(k) & 0x3f, splitmix64(r >> 32) % 3)
}
/// What `Eq` answers: the truth, unless chaos-eq is on.
#[inline]
pub fn eq_answer(truth: bool) -> bool {
    if CHAOS_EQ.load(Ordering::Relaxed) {
        let r = chaos_raw() % 1000;
        if r < CHAOS_EQ_PERMILLE.load(Ordering::Relaxed) {
            return !truth;
        }
    }
    truth
}

// --- the BuildHasher ---------------------------------------------------------------

static CURRENT: Mutex<(Plan, u64)> = Mutex::new((Plan::Mixed, 0));

/// Sets the plan that `PlanBH::default()` picks up (used by `from_iter`, `Default`, serde).
pub fn set_current(plan: Plan, salt: u64) {
    *CURRENT.lock().unwrap_or_else(|p| p.into_inner()) = (plan, salt);
}

#[derive(Clone, Copy, Debug)]
pub struct PlanBH {
    pub plan: Plan,
    pub salt: u64,
}
impl PlanBH {
    pub fn new(plan: Plan, salt: u64) -> PlanBH {
        PlanBH { plan, salt }
    }
    /// The hash of key id `id` under this plan (no fuse ticks; for monitors).
    pub fn hash_of(&self, id: u32) -> u64 {
        plan_hash(self.plan, self.salt, id as u64)
    }
}
impl Default for PlanBH {
    fn default() -> Self {
        let (plan, salt) = *CURRENT.lock().unwrap_or_else(|p| p.into_inner());
        PlanBH { plan, salt }
    }
}
pub struct PlanH {
    plan: Plan,
    salt: u64,
    id: u64,
}
impl Hasher for PlanH {
    fn finish(&self) -> u64 {
        plan_hash(self.plan, self.salt, self.id)
    }
    fn write(&mut self, bytes: &[u8]) {
        for b in bytes {
            self.id = self.id.wrapping_mul(257).wrapping_add(*b as u64);
        }
    }
    fn write_u64(&mut self, v: u64) {
        self.id = v;
    }
}
impl BuildHasher for PlanBH {
    type Hasher = PlanH;
    fn build_hasher(&self) -> PlanH {
        fuse::tick(Class::BuildHasher);
        PlanH { plan: self.plan, salt: self.salt, id: 0 }
    }
}

// --- borrowed lookup form ------------------------------------------------------------

/// A borrowed form of any menu key: hashes like the key, compares by id.
#[derive(Clone, Copy, Debug)]
pub struct KeyRef(pub u32);
impl Hash for KeyRef {
    fn hash<H: Hasher>(&self, h: &mut H) {
        fuse::tick(Class::Hash);
        h.write_u64(self.0 as u64);
    }
}
impl<K: crate::elem::Elem> hashbrown::Equivalent<K> for KeyRef {
    fn equivalent(&self, key: &K) -> bool {
        fuse::tick(Class::Eq);
        key.check();
        eq_answer(self.0 == key.id())
    }
}

/// An UNLAWFUL borrowed form: equivalent to a key by id alone, but its hash also depends on `class`
/// (which lands in bits above the table's position bits), so requests that are "the same key" carry
/// different hashes. Used to ask multi-key lookups for one entry under several hashes.
#[derive(Clone, Copy, Debug)]
pub struct LooseRef {
    pub id: u32,
    pub class: u32,
}
impl Hash for LooseRef {
    fn hash<H: Hasher>(&self, h: &mut H) {
        h.write_u64(self.id as u64 | ((self.class as u64) << 32));
    }
}
impl<K: crate::elem::Elem> hashbrown::Equivalent<K> for LooseRef {
    fn equivalent(&self, key: &K) -> bool {
        self.id == key.id()
    }
}
