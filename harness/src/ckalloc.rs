//! M1: checking allocator. A zero-sized handle over one process-global ledger
//! (so `Clone`/`Default` are trivial and rayon threads share it).
//!
//! guarded mode: over-allocates, hands out an interior pointer with canary red
//! zones on both sides, poisons fresh and freed memory, quarantines freed
//! blocks and re-checks their poison; checks every layout and every
//! deallocate against the ledger.
//! pass-through mode (ASan lane): forwards to the system allocator untouched
//! and keeps only the ledger, so that ASan's own red zones are what is tested.

use allocator_api2::alloc::{AllocError, Allocator};
use std::alloc::Layout;
use std::collections::{HashMap as StdMap, VecDeque};
use std::ptr::NonNull;
use std::sync::Mutex;

const RED: usize = 64;
const CANARY: u8 = 0xCA;
const FRESH: u8 = 0xA5;
const FREED: u8 = 0xDD;
const QUARANTINE_BYTES: usize = 1 << 20;
/// Requests above this are never backed by memory: they are recorded and refused.
pub const HARD_CAP: usize = 1 << 32;
/// blocks above this size are not poisoned or quarantined (their pages stay untouched unless the code under test touches them); red zones are kept
pub const BIG_BLOCK: usize = 32 << 20;

#[derive(Clone, Copy, Debug, PartialEq, Eq)]
pub enum EvKind {
    Alloc,
    Dealloc,
    Refuse,
}

#[derive(Clone, Copy, Debug)]
pub struct Event {
    pub kind: EvKind,
    pub ptr: usize,
    pub size: usize,
    pub align: usize,
}

#[derive(Clone, Copy)]
struct Live {
    size: usize,
    align: usize,
    raw: *mut u8,
    raw_size: usize,
    raw_align: usize,
    pad: usize,
    owner: u32,
}

unsafe impl Send for Live {}

struct Ledger {
    guarded: bool,
    live: StdMap<usize, Live>,
    quarantine: VecDeque<Live>,
    quarantine_bytes: usize,
    events: Vec<Event>,
    keep_events: bool,
    allocs: u64,
    deallocs: u64,
    refusals: u64,
    live_bytes: usize,
    peak_live_bytes: usize,
    max_request: usize,
    /// refuse the request that arrives when this reaches 0 (counted down per request)
    refuse_in: Option<u64>,
    /// refuse every request larger than this
    byte_cap: usize,
    bad_layouts: u64,
}

static LEDGER: Mutex<Option<Ledger>> = Mutex::new(None);
static CURRENT_ID: std::sync::atomic::AtomicU32 = std::sync::atomic::AtomicU32::new(0);

/// The allocator instance the state recipes hand to the collections they build (see `set_current_id`).
pub fn current() -> CkAlloc {
    CkAlloc { id: CURRENT_ID.load(std::sync::atomic::Ordering::SeqCst) }
}
/// Collections built from now on get their own allocator instance `id`.
pub fn set_current_id(id: u32) {
    CURRENT_ID.store(id, std::sync::atomic::Ordering::SeqCst);
}

fn with<R>(f: impl FnOnce(&mut Ledger) -> R) -> R {
    let mut g = match LEDGER.lock() {
        Ok(g) => g,
        Err(p) => p.into_inner(),
    };
    if g.is_none() {
        *g = Some(Ledger {
            guarded: true,
            live: StdMap::new(),
            quarantine: VecDeque::new(),
            quarantine_bytes: 0,
            events: Vec::new(),
            keep_events: true,
            allocs: 0,
            deallocs: 0,
            refusals: 0,
            live_bytes: 0,
            peak_live_bytes: 0,
            max_request: 0,
            refuse_in: None,
            byte_cap: HARD_CAP,
            bad_layouts: 0,
        });
    }
    f(g.as_mut().unwrap())
}

/// A handle on the process-global ledger. `id` distinguishes allocator *instances*: a block must be
/// returned through a handle with the id it was obtained from (a collection keeps, clones and frees
/// through its own allocator; handing a block to another instance is a violation).
#[derive(Clone, Copy, Default, Debug, PartialEq, Eq)]
pub struct CkAlloc {
    pub id: u32,
}
/// The default instance, usable as a value exactly like a unit struct: `HashMap::new_in(CkAlloc)`.
#[allow(non_upper_case_globals)]
pub const CkAlloc: CkAlloc = CkAlloc { id: 0 };

#[derive(Clone, Copy, Debug, Default, PartialEq, Eq)]
pub struct Counters {
    pub allocs: u64,
    pub deallocs: u64,
    pub refusals: u64,
    pub live_blocks: usize,
    pub live_bytes: usize,
    pub peak_live_bytes: usize,
    pub max_request: usize,
    pub bad_layouts: u64,
}

pub fn set_guarded(on: bool) {
    with(|l| l.guarded = on)
}
pub fn is_guarded() -> bool {
    with(|l| l.guarded)
}
pub fn counters() -> Counters {
    with(|l| Counters {
        allocs: l.allocs,
        deallocs: l.deallocs,
        refusals: l.refusals,
        live_blocks: l.live.len(),
        live_bytes: l.live_bytes,
        peak_live_bytes: l.peak_live_bytes,
        max_request: l.max_request,
        bad_layouts: l.bad_layouts,
    })
}
/// (ptr, size, align) of every live block, sorted by address.
pub fn live_blocks() -> Vec<(usize, usize, usize)> {
    with(|l| {
        let mut v: Vec<_> = l.live.iter().map(|(p, b)| (*p, b.size, b.align)).collect();
        v.sort();
        v
    })
}
pub fn take_events() -> Vec<Event> {
    with(|l| std::mem::take(&mut l.events))
}
pub fn events_len() -> usize {
    with(|l| l.events.len())
}
pub fn events_since(n: usize) -> Vec<Event> {
    with(|l| l.events[n.min(l.events.len())..].to_vec())
}
pub fn keep_events(on: bool) {
    with(|l| {
        l.keep_events = on;
        if !on {
            l.events.clear();
        }
    })
}
/// Refuse the request that arrives after `n` further successful-or-not requests (0 = the next one).
pub fn refuse_in(n: Option<u64>) {
    with(|l| l.refuse_in = n)
}
pub fn set_byte_cap(cap: usize) {
    with(|l| l.byte_cap = cap.min(HARD_CAP))
}
pub fn reset_peak() {
    with(|l| {
        l.peak_live_bytes = l.live_bytes;
        l.max_request = 0;
    })
}

/// Forget every live block without freeing it (used after scenarios that are allowed to leak).
pub fn forget_leaks() -> usize {
    with(|l| {
        let n = l.live.len();
        l.live.clear();
        l.live_bytes = 0;
        n
    })
}

/// Releases the quarantine, checking the poison of every parked block.
pub fn flush_quarantine() {
    let blocks: Vec<Live> = with(|l| {
        l.quarantine_bytes = 0;
        l.quarantine.drain(..).collect()
    });
    for b in blocks {
        release(b);
    }
}

fn release(b: Live) {
    unsafe {
        let body = b.raw.add(b.pad) as *const u8;
        for i in 0..b.size {
            if *body.add(i) != FREED {
                crate::viol!(
                    "ckalloc: write to freed block {:#x}+{} (size {}, align {})",
                    b.raw as usize + b.pad,
                    i,
                    b.size,
                    b.align
                );
                break;
            }
        }
        check_canaries(&b, "freed");
        std::alloc::dealloc(b.raw, Layout::from_size_align_unchecked(b.raw_size, b.raw_align));
    }
}

fn check_canaries(b: &Live, what: &str) {
    unsafe {
        let raw = b.raw as *const u8;
        for i in 0..b.pad {
            if *raw.add(i) != CANARY {
                crate::viol!(
                    "ckalloc: red zone before {} block {:#x} damaged at -{} (size {}, align {})",
                    what,
                    b.raw as usize + b.pad,
                    b.pad - i,
                    b.size,
                    b.align
                );
                return;
            }
        }
        let after = raw.add(b.pad + b.size);
        for i in 0..(b.raw_size - b.pad - b.size) {
            if *after.add(i) != CANARY {
                crate::viol!(
                    "ckalloc: red zone after {} block {:#x} damaged at +{} (size {}, align {})",
                    what,
                    b.raw as usize + b.pad,
                    i,
                    b.size,
                    b.align
                );
                return;
            }
        }
    }
}

/// Checks the canaries of every live block (called at quiescent points).
pub fn check_live_canaries() {
    let blocks: Vec<Live> = with(|l| if l.guarded { l.live.values().copied().collect() } else { Vec::new() });
    for b in blocks {
        check_canaries(&b, "live");
    }
}

fn layout_ok(size: usize, align: usize) -> bool {
    align.is_power_of_two() && size <= (isize::MAX as usize) - (align - 1)
}

unsafe impl Allocator for CkAlloc {
    fn allocate(&self, layout: Layout) -> Result<NonNull<[u8]>, AllocError> {
        // a custom allocator is user code as well: it may panic (fault enumeration, class `alloc`); never under the ledger lock
        crate::fuse::tick(crate::fuse::Class::Alloc);
        let (size, align) = (layout.size(), layout.align());
        let (guarded, refuse) = with(|l| {
            l.max_request = l.max_request.max(size);
            let mut refuse = false;
            if !layout_ok(size, align) {
                l.bad_layouts += 1;
                crate::viol!("ckalloc: invalid layout requested: size {} align {}", size, align);
                refuse = true;
            }
            if let Some(n) = l.refuse_in {
                if n == 0 {
                    l.refuse_in = None;
                    refuse = true;
                } else {
                    l.refuse_in = Some(n - 1);
                }
            }
            if size > l.byte_cap {
                refuse = true;
            }
            if refuse {
                l.refusals += 1;
                if l.keep_events {
                    l.events.push(Event { kind: EvKind::Refuse, ptr: 0, size, align });
                }
            }
            (l.guarded, refuse)
        });
        if refuse {
            return Err(AllocError);
        }
        let (ptr, rec) = unsafe {
            if guarded {
                let pad = RED.max(align);
                let raw_align = align.max(16);
                let raw_size = pad + size + RED;
                let raw = std::alloc::alloc(Layout::from_size_align_unchecked(raw_size, raw_align));
                if raw.is_null() {
                    return Err(AllocError);
                }
                std::ptr::write_bytes(raw, CANARY, pad);
                if size <= BIG_BLOCK {
                    std::ptr::write_bytes(raw.add(pad), FRESH, size);
                }
                std::ptr::write_bytes(raw.add(pad + size), CANARY, RED);
                (
                    raw.add(pad),
                    Live { size, align, raw, raw_size, raw_align, pad, owner: self.id },
                )
            } else {
                let p = if size == 0 {
                    align as *mut u8
                } else {
                    std::alloc::alloc(layout)
                };
                if p.is_null() {
                    return Err(AllocError);
                }
                (p, Live { size, align, raw: p, raw_size: size, raw_align: align, pad: 0, owner: self.id })
            }
        };
        with(|l| {
            l.allocs += 1;
            l.live_bytes += size;
            l.peak_live_bytes = l.peak_live_bytes.max(l.live_bytes);
            if l.live.insert(ptr as usize, rec).is_some() {
                crate::viol!("ckalloc: system allocator returned a live address {:#x}", ptr as usize);
            }
            if l.keep_events {
                l.events.push(Event { kind: EvKind::Alloc, ptr: ptr as usize, size, align });
            }
        });
        Ok(NonNull::slice_from_raw_parts(unsafe { NonNull::new_unchecked(ptr) }, size))
    }

    unsafe fn deallocate(&self, ptr: NonNull<u8>, layout: Layout) {
        let addr = ptr.as_ptr() as usize;
        let (size, align) = (layout.size(), layout.align());
        let rec = with(|l| {
            if l.keep_events {
                l.events.push(Event { kind: EvKind::Dealloc, ptr: addr, size, align });
            }
            match l.live.remove(&addr) {
                None => {
                    crate::viol!(
                        "ckalloc: deallocate of a pointer that is not live (double free or foreign): {:#x} size {} align {}",
                        addr, size, align
                    );
                    None
                }
                Some(b) => {
                    l.deallocs += 1;
                    l.live_bytes -= b.size;
                    if b.owner != self.id {
                        crate::viol!(
                            "ckalloc: a block obtained from allocator instance {} (size {} align {}) is returned to allocator instance {}",
                            b.owner, b.size, b.align, self.id
                        );
                    }
                    if b.size != size || b.align != align {
                        crate::viol!(
                            "ckalloc: deallocate with a different layout: allocated size {} align {}, freed with size {} align {}",
                            b.size, b.align, size, align
                        );
                    }
                    Some((b, l.guarded))
                }
            }
        });
        let Some((b, guarded)) = rec else { return };
        if guarded && b.pad != 0 && b.size > BIG_BLOCK {
            check_canaries(&b, "live");
            std::alloc::dealloc(b.raw, Layout::from_size_align_unchecked(b.raw_size, b.raw_align));
        } else if guarded && b.pad != 0 {
            check_canaries(&b, "live");
            std::ptr::write_bytes(b.raw.add(b.pad), FREED, b.size);
            let evict: Vec<Live> = with(|l| {
                l.quarantine_bytes += b.raw_size;
                l.quarantine.push_back(b);
                let mut ev = Vec::new();
                while l.quarantine_bytes > QUARANTINE_BYTES && l.quarantine.len() > 1 {
                    let x = l.quarantine.pop_front().unwrap();
                    l.quarantine_bytes -= x.raw_size;
                    ev.push(x);
                }
                ev
            });
            for x in evict {
                release(x);
            }
        } else if b.size != 0 {
            std::alloc::dealloc(b.raw, Layout::from_size_align_unchecked(b.raw_size, b.raw_align));
        }
    }
}
