//! M2: element menu and the live-element registry.
//!
//! Every tracked element carries a serial and a checksum; the registry records
//! construct / clone / drop events. A drop of a serial that is not live is a
//! double drop; a reference whose checksum, liveness or alignment check fails
//! is a dangling/garbage reference.

use crate::fuse::{self, Class};
use std::hash::{Hash, Hasher};
use std::sync::atomic::{AtomicBool, AtomicU64, Ordering};
use std::sync::Mutex;

// ---------------------------------------------------------------------------
// registry

#[derive(Clone, Copy, PartialEq, Eq, Debug)]
enum St {
    Live,
    Dropped,
}

struct Registry {
    base: u64,
    states: Vec<St>,
    live: u64,
    constructed: u64,
    cloned: u64,
    dropped: u64,
    double_drops: u64,
}

static REG: Mutex<Registry> = Mutex::new(Registry {
    base: 1,
    states: Vec::new(),
    live: 0,
    constructed: 0,
    cloned: 0,
    dropped: 0,
    double_drops: 0,
});
static ZST_LIVE: AtomicU64 = AtomicU64::new(0);
static ZST_MADE: AtomicU64 = AtomicU64::new(0);
static ZST_DROPPED: AtomicU64 = AtomicU64::new(0);
static ZST_UNDERFLOW: AtomicBool = AtomicBool::new(false);

fn reg<R>(f: impl FnOnce(&mut Registry) -> R) -> R {
    let mut g = match REG.lock() {
        Ok(g) => g,
        Err(p) => p.into_inner(),
    };
    f(&mut g)
}

#[derive(Clone, Copy, Debug, Default, PartialEq, Eq)]
pub struct RegCounters {
    pub live: u64,
    pub constructed: u64,
    pub cloned: u64,
    pub dropped: u64,
    pub double_drops: u64,
    pub zst_live: u64,
    pub zst_made: u64,
    pub zst_dropped: u64,
}

pub fn reg_counters() -> RegCounters {
    reg(|r| RegCounters {
        live: r.live,
        constructed: r.constructed,
        cloned: r.cloned,
        dropped: r.dropped,
        double_drops: r.double_drops,
        zst_live: ZST_LIVE.load(Ordering::SeqCst),
        zst_made: ZST_MADE.load(Ordering::SeqCst),
        zst_dropped: ZST_DROPPED.load(Ordering::SeqCst),
    })
}

/// Starts a new scenario: serials of earlier scenarios become unknown (a
/// reference to one of them is then reported as garbage). Returns the number
/// of elements that were still live (leaks of the previous scenario).
pub fn reg_reset() -> u64 {
    ZST_LIVE.store(0, Ordering::SeqCst);
    ZST_UNDERFLOW.store(false, Ordering::SeqCst);
    reg(|r| {
        let leaked = r.live;
        r.base += r.states.len() as u64 + 1000;
        r.states.clear();
        r.live = 0;
        leaked
    })
}

/// Serials that are still live, as offsets from the scenario base (for messages).
pub fn reg_live_serials(max: usize) -> Vec<u64> {
    reg(|r| {
        r.states
            .iter()
            .enumerate()
            .filter(|(_, s)| **s == St::Live)
            .map(|(i, _)| i as u64)
            .take(max)
            .collect()
    })
}

fn reg_new(cloned: bool) -> u64 {
    reg(|r| {
        let s = r.base + r.states.len() as u64;
        r.states.push(St::Live);
        r.live += 1;
        if cloned {
            r.cloned += 1;
        } else {
            r.constructed += 1;
        }
        s
    })
}

fn reg_is_live(serial: u64) -> bool {
    reg(|r| {
        serial >= r.base
            && ((serial - r.base) as usize) < r.states.len()
            && r.states[(serial - r.base) as usize] == St::Live
    })
}

fn reg_drop(serial: u64, what: &str) {
    let ok = reg(|r| {
        if serial >= r.base && ((serial - r.base) as usize) < r.states.len() {
            let i = (serial - r.base) as usize;
            if r.states[i] == St::Live {
                r.states[i] = St::Dropped;
                r.live -= 1;
                r.dropped += 1;
                return Ok(());
            }
            r.double_drops += 1;
            return Err(format!("double drop of {} serial +{}", what, serial - r.base));
        }
        r.double_drops += 1;
        Err(format!("drop of unknown {} serial {:#x}", what, serial))
    });
    if let Err(m) = ok {
        crate::util::violation(m);
    }
}

const MAGIC: u16 = 0x5AC3;
fn chk16(serial: u64, id: u32, gen: u16) -> u16 {
    let x = crate::util::splitmix64(serial ^ ((id as u64) << 20) ^ ((gen as u64) << 52));
    (x as u16) ^ MAGIC
}

// ---------------------------------------------------------------------------
// the element trait

pub trait Elem:
    Sized + Hash + Eq + Clone + Send + Sync + Default + std::fmt::Debug + for<'a> From<&'a crate::plan::KeyRef> + for<'a> From<&'a Self> + 'static
{
    const NAME: &'static str;
    /// ids are taken modulo this (1 for the ZST)
    const ID_SPACE: u32;
    /// whether distinct instances of equal elements can be told apart
    const HAS_GEN: bool;
    /// whether construction/drop is tracked in the registry
    const TRACKED: bool;
    /// whether `clone` ticks the Clone fuse counter (false for the `Copy` byte types)
    const COUNTS_CLONE: bool = true;
    fn make(id: u32, gen: u16) -> Self;
    fn id(&self) -> u32;
    fn gen(&self) -> u16;
    /// Validates checksum, liveness and alignment; records a violation and returns false on failure.
    fn check(&self) -> bool;
}

fn aligned<T>(r: &T) -> bool {
    let ok = (r as *const T as usize) % std::mem::align_of::<T>() == 0;
    if !ok {
        crate::viol!(
            "misaligned reference to {} at {:#x} (align {})",
            std::any::type_name::<T>(),
            r as *const T as usize,
            std::mem::align_of::<T>()
        );
    }
    ok
}

macro_rules! common_traits {
    ($t:ident) => {
        impl Hash for $t {
            fn hash<H: Hasher>(&self, h: &mut H) {
                fuse::tick(Class::Hash);
                self.check();
                h.write_u64(self.id() as u64);
            }
        }
        impl PartialEq for $t {
            fn eq(&self, o: &Self) -> bool {
                fuse::tick(Class::Eq);
                self.check();
                o.check();
                crate::plan::eq_answer(self.id() == o.id())
            }
        }
        impl Eq for $t {}
        impl Default for $t {
            fn default() -> Self {
                <$t as Elem>::make(0, 0)
            }
        }
        impl<'a> From<&'a $t> for $t {
            /// `entry_ref(&K)` with `Q = K`: the stored key is a fresh instance made from the borrowed one
            fn from(k: &'a $t) -> $t {
                fuse::tick(Class::Into);
                <$t as Elem>::make(k.id(), crate::plan::INTO_GEN)
            }
        }
        impl<'a> From<&'a crate::plan::KeyRef> for $t {
            fn from(k: &'a crate::plan::KeyRef) -> $t {
                fuse::tick(Class::Into);
                <$t as Elem>::make(k.0, crate::plan::INTO_GEN)
            }
        }
        impl std::fmt::Debug for $t {
            fn fmt(&self, f: &mut std::fmt::Formatter<'_>) -> std::fmt::Result {
                write!(f, "{}({},g{})", <$t as Elem>::NAME, self.id(), self.gen())
            }
        }
    };
}

// --- plain (no drop glue) elements -----------------------------------------

#[derive(Clone, Copy)]
#[repr(transparent)]
pub struct B1(pub u8);
impl Elem for B1 {
    const NAME: &'static str = "B1";
    const COUNTS_CLONE: bool = false;
    const ID_SPACE: u32 = 256;
    const HAS_GEN: bool = false;
    const TRACKED: bool = false;
    fn make(id: u32, _gen: u16) -> Self {
        B1((id % 256) as u8)
    }
    fn id(&self) -> u32 {
        self.0 as u32
    }
    fn gen(&self) -> u16 {
        0
    }
    fn check(&self) -> bool {
        true
    }
}
common_traits!(B1);

#[derive(Clone, Copy)]
#[repr(transparent)]
pub struct B2(pub u16);
impl Elem for B2 {
    const NAME: &'static str = "B2";
    const COUNTS_CLONE: bool = false;
    const ID_SPACE: u32 = 65536;
    const HAS_GEN: bool = false;
    const TRACKED: bool = false;
    fn make(id: u32, _gen: u16) -> Self {
        B2((id % 65536) as u16)
    }
    fn id(&self) -> u32 {
        self.0 as u32
    }
    fn gen(&self) -> u16 {
        0
    }
    fn check(&self) -> bool {
        aligned(self)
    }
}
common_traits!(B2);


/// 3 bytes, align 1: a size that is not a multiple of the group alignment padding unit.
#[derive(Clone, Copy)]
#[repr(transparent)]
pub struct B3(pub [u8; 3]);
impl Elem for B3 {
    const NAME: &'static str = "B3";
    const COUNTS_CLONE: bool = false;
    const ID_SPACE: u32 = 1 << 24;
    const HAS_GEN: bool = false;
    const TRACKED: bool = false;
    fn make(id: u32, _gen: u16) -> Self {
        let b = id.to_le_bytes();
        B3([b[0], b[1], b[2]])
    }
    fn id(&self) -> u32 {
        u32::from_le_bytes([self.0[0], self.0[1], self.0[2], 0])
    }
    fn gen(&self) -> u16 {
        0
    }
    fn check(&self) -> bool {
        true
    }
}
common_traits!(B3);

/// 6 bytes, align 2.
#[derive(Clone, Copy)]
#[repr(C)]
pub struct B6 {
    id: [u16; 2],
    chk: u16,
}
impl Elem for B6 {
    const NAME: &'static str = "B6";
    const COUNTS_CLONE: bool = false;
    const ID_SPACE: u32 = u32::MAX;
    const HAS_GEN: bool = false;
    const TRACKED: bool = false;
    fn make(id: u32, _gen: u16) -> Self {
        B6 { id: [id as u16, (id >> 16) as u16], chk: chk16(6, id, 0) }
    }
    fn id(&self) -> u32 {
        self.id[0] as u32 | ((self.id[1] as u32) << 16)
    }
    fn gen(&self) -> u16 {
        0
    }
    fn check(&self) -> bool {
        let ok = aligned(self) && self.chk == chk16(6, self.id(), 0);
        if !ok {
            crate::viol!("garbage B6 element: id {:#x} chk {:#x}", self.id(), self.chk);
        }
        ok
    }
}
common_traits!(B6);

/// 8 bytes, align 4, no drop glue: the `drop: None` paths of the raw table.
/// Deliberately `Clone` but not `Copy`, with an observable `clone` (it ticks the Clone fuse).
#[repr(C)]
pub struct P8 {
    id: u32,
    gen: u16,
    chk: u16,
}
impl Elem for P8 {
    const NAME: &'static str = "P8";
    const ID_SPACE: u32 = u32::MAX;
    const HAS_GEN: bool = true;
    const TRACKED: bool = false;
    fn make(id: u32, gen: u16) -> Self {
        P8 { id, gen, chk: chk16(0, id, gen) }
    }
    fn id(&self) -> u32 {
        self.id
    }
    fn gen(&self) -> u16 {
        self.gen
    }
    fn check(&self) -> bool {
        let ok = aligned(self) && self.chk == chk16(0, self.id, self.gen);
        if !ok {
            crate::viol!("garbage P8 element: id {:#x} gen {:#x} chk {:#x}", self.id, self.gen, self.chk);
        }
        ok
    }
}
impl Clone for P8 {
    fn clone(&self) -> Self {
        fuse::tick(Class::Clone);
        self.check();
        P8 { id: self.id, gen: self.gen, chk: self.chk }
    }
}
common_traits!(P8);

// --- tracked elements --------------------------------------------------------

macro_rules! tracked_check {
    ($self:ident, $name:expr) => {{
        let mut ok = aligned($self);
        if $self.chk != chk16($self.serial, $self.id, $self.gen) {
            crate::viol!(
                "garbage {} element (checksum): serial {:#x} id {:#x} gen {:#x}",
                $name, $self.serial, $self.id, $self.gen
            );
            ok = false;
        } else if !reg_is_live($self.serial) {
            crate::viol!("reference to a {} element that is not live: serial {:#x} id {}", $name, $self.serial, $self.id);
            ok = false;
        }
        ok
    }};
}

/// 24 bytes, align 8, registry + owns a heap block (so ASan/Miri see double free/leak too).
#[repr(C)]
pub struct T24 {
    serial: u64,
    id: u32,
    gen: u16,
    chk: u16,
    bx: Box<u64>,
}
impl Elem for T24 {
    const NAME: &'static str = "T24";
    const ID_SPACE: u32 = u32::MAX;
    const HAS_GEN: bool = true;
    const TRACKED: bool = true;
    fn make(id: u32, gen: u16) -> Self {
        let serial = reg_new(false);
        T24 { serial, id, gen, chk: chk16(serial, id, gen), bx: Box::new(!serial) }
    }
    fn id(&self) -> u32 {
        self.id
    }
    fn gen(&self) -> u16 {
        self.gen
    }
    fn check(&self) -> bool {
        let mut ok = tracked_check!(self, "T24");
        if ok && *self.bx != !self.serial {
            crate::viol!("T24 heap payload damaged: serial {:#x}", self.serial);
            ok = false;
        }
        ok
    }
}
impl Clone for T24 {
    fn clone(&self) -> Self {
        fuse::tick(Class::Clone);
        self.check();
        let serial = reg_new(true);
        T24 { serial, id: self.id, gen: self.gen, chk: chk16(serial, self.id, self.gen), bx: Box::new(!serial) }
    }
}
impl Drop for T24 {
    fn drop(&mut self) {
        if self.chk == chk16(self.serial, self.id, self.gen) {
            reg_drop(self.serial, "T24");
        } else {
            crate::viol!("drop of a garbage T24: serial {:#x} id {:#x}", self.serial, self.id);
            // do not free a garbage Box
            let b = std::mem::replace(&mut self.bx, Box::new(0));
            std::mem::forget(b);
        }
        fuse::tick(Class::Drop);
    }
}
common_traits!(T24);

/// Large elements (200, 600 and 4200 bytes; align 8; registry): the padding carries a non-periodic pattern derived from
/// the serial, so that partial or mixed copies show. 600 and 4200 bytes lie beyond any "small element" buffer a copy or
/// swap routine might use (256 bytes, one page).
fn big_pad<const P: usize>(serial: u64) -> [u8; P] {
    let mut p = [0u8; P];
    for (i, b) in p.iter_mut().enumerate() {
        *b = (serial as u8).wrapping_mul(31).wrapping_add(i as u8).wrapping_add(((i >> 8) as u8).wrapping_mul(17));
    }
    p
}
macro_rules! big_elem {
    ($T:ident, $P:expr, $name:expr) => {
        #[repr(C)]
        pub struct $T {
            serial: u64,
            id: u32,
            gen: u16,
            chk: u16,
            pad: [u8; $P],
        }
        impl Elem for $T {
            const NAME: &'static str = $name;
            const ID_SPACE: u32 = u32::MAX;
            const HAS_GEN: bool = true;
            const TRACKED: bool = true;
            fn make(id: u32, gen: u16) -> Self {
                let serial = reg_new(false);
                $T { serial, id, gen, chk: chk16(serial, id, gen), pad: big_pad::<$P>(serial) }
            }
            fn id(&self) -> u32 {
                self.id
            }
            fn gen(&self) -> u16 {
                self.gen
            }
            fn check(&self) -> bool {
                let mut ok = tracked_check!(self, $name);
                if ok && self.pad != big_pad::<$P>(self.serial) {
                    crate::viol!("{} body damaged (partial or mixed copy?): serial {:#x}", $name, self.serial);
                    ok = false;
                }
                ok
            }
        }
        impl Clone for $T {
            fn clone(&self) -> Self {
                fuse::tick(Class::Clone);
                self.check();
                let serial = reg_new(true);
                $T { serial, id: self.id, gen: self.gen, chk: chk16(serial, self.id, self.gen), pad: big_pad::<$P>(serial) }
            }
        }
        impl Drop for $T {
            fn drop(&mut self) {
                if self.chk == chk16(self.serial, self.id, self.gen) {
                    reg_drop(self.serial, $name);
                } else {
                    crate::viol!("drop of a garbage {}: serial {:#x} id {:#x}", $name, self.serial, self.id);
                }
                fuse::tick(Class::Drop);
            }
        }
        common_traits!($T);
    };
}
big_elem!(L200, 184, "L200");
big_elem!(L600, 584, "L600");
big_elem!(L4K, 4184, "L4K");

/// 64 bytes, align 64 (> any group width): the `ctrl_align > WIDTH` branch.
#[repr(C, align(64))]
pub struct A64 {
    serial: u64,
    id: u32,
    gen: u16,
    chk: u16,
    pad: [u8; 48],
}
impl Elem for A64 {
    const NAME: &'static str = "A64";
    const ID_SPACE: u32 = u32::MAX;
    const HAS_GEN: bool = true;
    const TRACKED: bool = true;
    fn make(id: u32, gen: u16) -> Self {
        let serial = reg_new(false);
        A64 { serial, id, gen, chk: chk16(serial, id, gen), pad: [serial as u8; 48] }
    }
    fn id(&self) -> u32 {
        self.id
    }
    fn gen(&self) -> u16 {
        self.gen
    }
    fn check(&self) -> bool {
        let mut ok = tracked_check!(self, "A64");
        if ok && self.pad != [self.serial as u8; 48] {
            crate::viol!("A64 body damaged: serial {:#x}", self.serial);
            ok = false;
        }
        ok
    }
}
impl Clone for A64 {
    fn clone(&self) -> Self {
        fuse::tick(Class::Clone);
        self.check();
        let serial = reg_new(true);
        A64 { serial, id: self.id, gen: self.gen, chk: chk16(serial, self.id, self.gen), pad: [serial as u8; 48] }
    }
}
impl Drop for A64 {
    fn drop(&mut self) {
        if self.chk == chk16(self.serial, self.id, self.gen) {
            reg_drop(self.serial, "A64");
        } else {
            crate::viol!("drop of a garbage A64: serial {:#x} id {:#x}", self.serial, self.id);
        }
        fuse::tick(Class::Drop);
    }
}
common_traits!(A64);

/// Zero-sized element with a counted destructor.
pub struct Z;
impl Elem for Z {
    const NAME: &'static str = "Z";
    const ID_SPACE: u32 = 1;
    const HAS_GEN: bool = false;
    const TRACKED: bool = true;
    fn make(_id: u32, _gen: u16) -> Self {
        ZST_LIVE.fetch_add(1, Ordering::SeqCst);
        ZST_MADE.fetch_add(1, Ordering::SeqCst);
        Z
    }
    fn id(&self) -> u32 {
        0
    }
    fn gen(&self) -> u16 {
        0
    }
    fn check(&self) -> bool {
        if ZST_LIVE.load(Ordering::SeqCst) == 0 {
            crate::viol!("reference to a Z element although none is live");
            return false;
        }
        true
    }
}
impl Clone for Z {
    fn clone(&self) -> Self {
        fuse::tick(Class::Clone);
        Z::make(0, 0)
    }
}
impl Drop for Z {
    fn drop(&mut self) {
        ZST_DROPPED.fetch_add(1, Ordering::SeqCst);
        let prev = ZST_LIVE.fetch_update(Ordering::SeqCst, Ordering::SeqCst, |v| v.checked_sub(1));
        if prev.is_err() && !ZST_UNDERFLOW.swap(true, Ordering::SeqCst) {
            crate::viol!("more Z elements dropped than were created (double drop of a ZST)");
        }
        fuse::tick(Class::Drop);
    }
}
common_traits!(Z);

/// Zero-sized element with alignment 8 (a ZST whose dangling pointers are not 1-aligned), counted destructor.
#[repr(C)]
pub struct Z8([u64; 0]);
impl Elem for Z8 {
    const NAME: &'static str = "Z8";
    const ID_SPACE: u32 = 1;
    const HAS_GEN: bool = false;
    const TRACKED: bool = true;
    fn make(_id: u32, _gen: u16) -> Self {
        ZST_LIVE.fetch_add(1, Ordering::SeqCst);
        ZST_MADE.fetch_add(1, Ordering::SeqCst);
        Z8([])
    }
    fn id(&self) -> u32 {
        0
    }
    fn gen(&self) -> u16 {
        0
    }
    fn check(&self) -> bool {
        if ZST_LIVE.load(Ordering::SeqCst) == 0 {
            crate::viol!("reference to a Z8 element although none is live");
            return false;
        }
        aligned(self)
    }
}
impl Clone for Z8 {
    fn clone(&self) -> Self {
        fuse::tick(Class::Clone);
        Z8::make(0, 0)
    }
}
impl Drop for Z8 {
    fn drop(&mut self) {
        ZST_DROPPED.fetch_add(1, Ordering::SeqCst);
        let prev = ZST_LIVE.fetch_update(Ordering::SeqCst, Ordering::SeqCst, |v| v.checked_sub(1));
        if prev.is_err() && !ZST_UNDERFLOW.swap(true, Ordering::SeqCst) {
            crate::viol!("more Z elements dropped than were created (double drop of a ZST)");
        }
        fuse::tick(Class::Drop);
    }
}
common_traits!(Z8);

/// Number of elements (tracked + ZST) that are live right now.
pub fn live_now() -> u64 {
    reg(|r| r.live) + ZST_LIVE.load(Ordering::SeqCst)
}
