//! HashTable driver: explicit-hash API against a multiset model (M4).
//! Elements get their hash from the plan (a pure function of the element id),
//! so the `hasher` closure is lawful by construction unless the plan is Chaos.

use crate::ckalloc::{self, CkAlloc};
use crate::ctx::Ctx;
use crate::oplog;
use crate::elem::Elem;
use crate::fuse::{self, Class};
use crate::plan::{eq_answer, plan_hash, Plan, PlanBH};
use crate::util::{catch, is_injected, payload_str, splitmix64, Digest, Json, Rng};
use crate::validate::{self, Facts};
use hashbrown::hash_table::Entry;

pub type Table<E> = hashbrown::HashTable<E, CkAlloc>;

pub const TNOPS: usize = 18;
pub const TOP_NAMES: [&str; TNOPS] = [
    "insert_unique", "find", "find_exact", "find_mut", "find_entry", "entry", "retain", "extract_if", "drain", "clear",
    "reserve_shrink", "get_many_mut", "iter_hash", "iterate", "clone", "into_iter", "leak", "fmt_misc",
];
pub const TW_GENERAL: [u32; TNOPS] = [30, 8, 8, 5, 14, 16, 2, 2, 1, 1, 5, 3, 6, 3, 2, 1, 0, 4];
pub const TW_LEAKY: [u32; TNOPS] = [30, 6, 6, 4, 12, 14, 3, 3, 2, 1, 5, 3, 5, 3, 2, 2, 4, 4];

pub struct TableDrv<E: Elem> {
    pub t: Table<E>,
    /// multiset of (id, gen)
    pub model: Vec<(u32, u16)>,
    pub bh: PlanBH,
    pub universe: u32,
    pub compare: bool,
    pub lawful: bool,
    pub order_free: bool,
    pub validate_every: u32,
    pub max_live: usize,
    gen: u16,
    pub tr: Digest,
    pub facts: Facts,
    pub steps: u64,
    allocs_seen: u64,
    pub dead: bool,
}

fn rm(model: &mut Vec<(u32, u16)>, id: u32, gen: u16) -> bool {
    match model.iter().position(|e| *e == (id, gen)) {
        Some(p) => {
            model.remove(p);
            true
        }
        None => false,
    }
}

fn pred(salt: u64, id: u32, gen: u16) -> bool {
    splitmix64(salt ^ id as u64 ^ ((gen as u64) << 32)) % 3 != 0
}

/// the `hasher` closure handed to the table
pub fn hasher_of<E: Elem>(plan: Plan, salt: u64) -> impl Fn(&E) -> u64 + Copy {
    move |e: &E| {
        fuse::tick(Class::Hash);
        e.check();
        plan_hash(plan, salt, e.id() as u64)
    }
}

impl<E: Elem> TableDrv<E> {
    pub fn new(bh: PlanBH, universe: u32, cap: usize) -> Self {
        let t = if cap == 0 { Table::new_in(CkAlloc) } else { Table::with_capacity_in(cap, CkAlloc) };
        TableDrv {
            t,
            model: Vec::new(),
            bh,
            universe: universe.min(E::ID_SPACE).max(1),
            compare: bh.plan.is_lawful(),
            lawful: bh.plan.is_lawful(),
            order_free: false,
            validate_every: if crate::util::slow_lane() { 6 } else { 1 },
            max_live: usize::MAX,
            gen: 0,
            tr: Digest::default(),
            facts: Facts::default(),
            steps: 0,
            allocs_seen: ckalloc::counters().allocs,
            dead: false,
        }
    }
    fn h(&self, id: u32) -> u64 {
        plan_hash(self.bh.plan, self.bh.salt, id as u64)
    }
    fn mk(&mut self, id: u32) -> (E, u16) {
        let g = if E::HAS_GEN {
            self.gen = self.gen.wrapping_add(1);
            self.gen
        } else {
            0
        };
        (E::make(id, g), g)
    }
    fn pick_id(&self, rng: &mut Rng) -> u32 {
        rng.below(self.universe as u64) as u32
    }
    fn count(&self, id: u32) -> usize {
        self.model.iter().filter(|e| e.0 == id).count()
    }
    fn has(&self, id: u32, gen: u16) -> bool {
        self.model.iter().any(|e| *e == (id, gen))
    }
    fn remove_model(&mut self, id: u32, gen: u16) -> bool {
        match self.model.iter().position(|e| *e == (id, gen)) {
            Some(p) => {
                self.model.remove(p);
                true
            }
            None => false,
        }
    }
    /// An element handed back by the table must be one the model holds.
    fn known(&self, e: &E, what: &str) {
        e.check();
        if self.compare && !self.has(e.id(), e.gen()) {
            crate::viol!("{}: the table returned {:?}, which the model does not hold (removed or never inserted)", what, e);
        }
    }

    pub fn step(&mut self, ctx: &mut Ctx, rng: &mut Rng, weights: &[u32; TNOPS]) -> bool {
        if self.dead {
            return false;
        }
        let mut op = rng.weighted(weights);
        if self.model.len() >= self.max_live && matches!(op, 0 | 5) {
            op = 4;
        }
        if self.order_free && matches!(op, 0 | 14) {
            // duplicates make "which instance was found" depend on the layout; transcripts must not
            op = 5;
        }
        self.steps += 1;
        ctx.evaluations += 1;
        let r = {
            let this = &mut *self;
            let ctx2 = &mut *ctx;
            catch(move || this.exec(op, ctx2, rng))
        };
        match r {
            Ok(obs) => {
                self.tr.u64(op as u64);
                self.tr.u64(obs);
                if ctx.only.is_some() && ctx.xarg("trace").is_some() {
                    println!("TR {} {} obs={} digest={:x}", self.steps, TOP_NAMES[op], obs, self.tr.0);
                }
            }
            Err(p) => {
                if is_injected(&p) {
                    crate::viol!("injected panic escaped outside fault enumeration in table {}", TOP_NAMES[op]);
                } else {
                    crate::viol!("unexpected panic in table {}: {}", TOP_NAMES[op], payload_str(&p));
                }
                self.dead = true;
                return false;
            }
        }
        if self.steps % self.validate_every as u64 == 0 {
            self.validate(ctx, TOP_NAMES[op]);
        }
        !crate::util::has_violation()
    }

    fn exec(&mut self, op: usize, ctx: &mut Ctx, rng: &mut Rng) -> u64 {
        let hs = hasher_of::<E>(self.bh.plan, self.bh.salt);
        match op {
            0 => {
                let id = self.pick_id(rng);
                let (e, g) = self.mk(id);
                let h = self.h(id);
                let sub = rng.below(6);
                oplog!(ctx, "insert_unique({},g{}) sub{}", id, g, sub);
                let (e2, g2) = self.mk(id);
                let mut e2 = Some(e2);
                let occ = self.t.insert_unique(h, e, hs);
                occ.get().check();
                if occ.get().id() != id || occ.get().gen() != g {
                    crate::viol!("insert_unique({}): the returned entry holds {:?}", id, occ.get());
                }
                self.model.push((id, g));
                match sub {
                    0 => {
                        // remove and re-insert through the returned vacant entry (same slot)
                        let (old, vac) = occ.remove();
                        old.check();
                        rm(&mut self.model, id, g);
                        let o2 = vac.insert(e2.take().unwrap());
                        if o2.get().gen() != g2 {
                            crate::viol!("VacantEntry::insert: entry holds {:?}", o2.get());
                        }
                        self.model.push((id, g2));
                    }
                    1 => {
                        let (old, vac) = occ.remove();
                        old.check();
                        rm(&mut self.model, id, g);
                        let _t = vac.into_table();
                    }
                    2 => {
                        let _t = occ.into_table();
                    }
                    _ => {}
                }
                sub
            }
            1 => {
                let id = self.pick_id(rng);
                let h = self.h(id);
                oplog!(ctx, "find({})", id);
                let got = self.t.find(h, |e| {
                    fuse::tick(Class::Eq);
                    e.check();
                    eq_answer(e.id() == id)
                });
                if self.compare && got.is_some() != (self.count(id) > 0) {
                    crate::viol!("find({}): {} but the model holds {} such element(s)", id, if got.is_some() { "Some" } else { "None" }, self.count(id));
                }
                if let Some(e) = got {
                    self.known(e, "find");
                    return 1;
                }
                0
            }
            2 => {
                // an exact instance that the model holds must be found with its hash
                if self.model.is_empty() {
                    return 0;
                }
                let (id, g) = self.model[rng.usize_below(self.model.len())];
                let h = self.h(id);
                oplog!(ctx, "find_exact({},g{})", id, g);
                let got = self.t.find(h, |e| eq_answer(e.id() == id && e.gen() == g));
                if self.compare && got.is_none() {
                    crate::viol!("find: element ({},g{}) inserted with hash {:#x} and not removed is not returned", id, g, h);
                }
                got.is_some() as u64
            }
            3 => {
                let id = self.pick_id(rng);
                let h = self.h(id);
                let (ne, ng) = self.mk(id);
                oplog!(ctx, "find_mut({}) := g{}", id, ng);
                let compare = self.compare;
                let cnt = self.count(id);
                let got = self.t.find_mut(h, |e| eq_answer(e.id() == id));
                if compare && got.is_some() != (cnt > 0) {
                    crate::viol!("find_mut({}): presence differs from the model ({} stored)", id, cnt);
                }
                if let Some(slot) = got {
                    slot.check();
                    let og = slot.gen();
                    let oid = slot.id();
                    // same id => same hash: replacing the element in place is lawful
                    if oid == id {
                        *slot = ne;
                        if !self.remove_model(id, og) && compare {
                            crate::viol!("find_mut({}): returned ({},g{}) which the model does not hold", id, oid, og);
                        }
                        self.model.push((id, ng));
                    }
                    return 1;
                }
                0
            }
            4 => {
                let id = if rng.chance(3, 4) && !self.model.is_empty() { self.model[rng.usize_below(self.model.len())].0 } else { self.pick_id(rng) };
                let h = self.h(id);
                let sub = rng.below(5);
                oplog!(ctx, "find_entry({}) sub{}", id, sub);
                let compare = self.compare;
                let cnt = self.count(id);
                match self.t.find_entry(h, |e| eq_answer(e.id() == id)) {
                    Ok(mut occ) => {
                        if compare && cnt == 0 {
                            crate::viol!("find_entry({}): Occupied but the model holds none", id);
                        }
                        occ.get().check();
                        let (oid, og) = (occ.get().id(), occ.get().gen());
                        match sub {
                            0 | 1 => {
                                let (old, vac) = occ.remove();
                                old.check();
                                if sub == 0 && oid == id {
                                    let g2 = if E::HAS_GEN {
                                        self.gen = self.gen.wrapping_add(1);
                                        self.gen
                                    } else {
                                        0
                                    };
                                    let o2 = vac.insert(E::make(id, g2));
                                    o2.get().check();
                                    self.model.push((id, g2));
                                } else {
                                    let _ = vac.into_table();
                                }
                                if !self.remove_model(oid, og) && compare {
                                    crate::viol!("find_entry({}).remove: removed ({},g{}) which the model does not hold", id, oid, og);
                                }
                            }
                            2 => {
                                occ.get_mut().check();
                            }
                            3 => {
                                occ.into_mut().check();
                            }
                            _ => {
                                let _ = occ.into_table();
                            }
                        }
                        1
                    }
                    Err(abs) => {
                        if compare && cnt > 0 {
                            crate::viol!("find_entry({}): Absent but the model holds {}", id, cnt);
                        }
                        let _ = abs.into_table();
                        0
                    }
                }
            }
            5 => {
                let id = self.pick_id(rng);
                let h = self.h(id);
                let (ne, ng) = self.mk(id);
                let sub = rng.below(8);
                oplog!(ctx, "entry({}) sub{} new g{}", id, sub, ng);
                let compare = self.compare;
                let cnt = self.count(id);
                let e = self.t.entry(
                    h,
                    |e| {
                        fuse::tick(Class::Eq);
                        eq_answer(e.id() == id)
                    },
                    hs,
                );
                let occupied = matches!(e, Entry::Occupied(_));
                if compare && occupied != (cnt > 0) {
                    crate::viol!("entry({}): {} but the model holds {}", id, if occupied { "Occupied" } else { "Vacant" }, cnt);
                }
                let mut pushed = false;
                match sub {
                    0 | 1 => match e {
                        Entry::Occupied(occ) => {
                            occ.get().check();
                            let (oid, og) = (occ.get().id(), occ.get().gen());
                            let (old, _vac) = occ.remove();
                            old.check();
                            if !self.remove_model(oid, og) && compare {
                                crate::viol!("entry({}).remove: removed ({},g{}) unknown to the model", id, oid, og);
                            }
                        }
                        Entry::Vacant(vac) => {
                            let o = vac.insert(ne);
                            o.get().check();
                            pushed = true;
                        }
                    },
                    2 => {
                        let o = e.or_insert(ne);
                        o.get().check();
                        pushed = !occupied;
                    }
                    3 => {
                        let o = e.or_insert_with(|| ne);
                        o.get().check();
                        pushed = !occupied;
                    }
                    4 => {
                        let e2 = e.and_modify(|x| {
                            x.check();
                        });
                        drop(e2);
                    }
                    5 => {
                        // Entry::insert: replaces an occupied element, fills a vacant one
                        if let Entry::Occupied(o) = &e {
                            let (oid, og) = (o.get().id(), o.get().gen());
                            if oid == id {
                                rm(&mut self.model, oid, og);
                                let o2 = e.insert(ne);
                                o2.get().check();
                                pushed = true;
                            }
                        } else {
                            let o2 = e.insert(ne);
                            o2.get().check();
                            pushed = true;
                        }
                    }
                    _ => {
                        // dropped unused: must not change contents or len
                        drop(e);
                    }
                }
                if pushed {
                    self.model.push((id, ng));
                }
                occupied as u64
            }
            6 => {
                let salt = rng.next();
                oplog!(ctx, "retain(salt {:#x})", salt);
                let len = self.t.len();
                let mut calls = 0usize;
                self.t.retain(|e| {
                    calls += 1;
                    e.check();
                    pred(salt, e.id(), e.gen())
                });
                crate::check!(calls == len, "table retain: predicate called {} times for {} elements", calls, len);
                self.model.retain(|e| pred(salt, e.0, e.1));
                self.model.len() as u64
            }
            7 => {
                let salt = rng.next();
                let full = self.order_free || rng.chance(1, 2);
                let limit = if full { usize::MAX } else { rng.usize_below(self.t.len() + 1) };
                oplog!(ctx, "extract_if(salt {:#x}, limit {})", salt, limit as i64);
                let mut got = Vec::new();
                {
                    let mut it = self.t.extract_if(|e| {
                        e.check();
                        !pred(salt, e.id(), e.gen())
                    });
                    while got.len() < limit {
                        match it.next() {
                            Some(e) => {
                                e.check();
                                got.push((e.id(), e.gen()));
                            }
                            None => break,
                        }
                    }
                }
                for (id, g) in &got {
                    crate::check!(!pred(salt, *id, *g), "table extract_if yielded ({},g{}) for which the predicate is false", id, g);
                    if !self.remove_model(*id, *g) && self.compare {
                        crate::viol!("table extract_if yielded ({},g{}) which the model does not hold", id, g);
                    }
                }
                if full && self.compare {
                    crate::check!(self.model.iter().all(|e| pred(salt, e.0, e.1)), "table extract_if exhausted but a selected element remains");
                }
                got.len() as u64
            }
            8 => {
                let len = self.t.len();
                let take = if self.order_free || rng.chance(1, 2) { len } else { rng.usize_below(len + 1) };
                oplog!(ctx, "drain(take {} of {})", take, len);
                let mut seen = Vec::new();
                {
                    let mut d = self.t.drain();
                    crate::check!(d.len() == len, "table drain len() {} for {} elements", d.len(), len);
                    for _ in 0..take {
                        if let Some(e) = d.next() {
                            e.check();
                            seen.push((e.id(), e.gen()));
                        }
                    }
                }
                crate::check!(seen.len() == take, "table drain yielded {} of {} requested", seen.len(), take);
                if self.compare {
                    let mut m = self.model.clone();
                    for s in &seen {
                        match m.iter().position(|e| e == s) {
                            Some(p) => {
                                m.remove(p);
                            }
                            None => crate::viol!("table drain yielded {:?} twice or unknown", s),
                        }
                    }
                }
                self.model.clear();
                crate::check!(self.t.is_empty(), "table not empty after drain was dropped");
                len as u64
            }
            9 => {
                oplog!(ctx, "clear");
                self.t.clear();
                self.model.clear();
                0
            }
            10 => {
                let sub = rng.below(4);
                let n = match rng.below(3) {
                    0 => rng.below(8) as usize,
                    1 => rng.below(64) as usize,
                    _ if self.order_free => (self.t.len() + rng.below(4) as usize).saturating_sub(2),
                    _ => (self.t.capacity() + rng.below(4) as usize).saturating_sub(2),
                };
                let len = self.t.len();
                match sub {
                    0 => {
                        oplog!(ctx, "reserve({})", n);
                        self.t.reserve(n, hs);
                        crate::check!(self.t.capacity() >= len + n, "table reserve({}): capacity {} < {}", n, self.t.capacity(), len + n);
                    }
                    1 => {
                        oplog!(ctx, "shrink_to({})", n);
                        self.t.shrink_to(n, hs);
                    }
                    2 => {
                        oplog!(ctx, "shrink_to_fit");
                        self.t.shrink_to_fit(hs);
                    }
                    _ => {
                        oplog!(ctx, "try_reserve({})", n);
                        let r = self.t.try_reserve(n, hs);
                        crate::check!(r.is_ok(), "table try_reserve({}) failed without refusal", n);
                    }
                }
                crate::check!(self.t.len() == len, "table reserve/shrink changed len {} -> {}", len, self.t.len());
                sub
            }
            11 => {
                if !self.lawful || self.universe < 2 {
                    return 0;
                }
                let a = self.pick_id(rng);
                let mut b = self.pick_id(rng);
                if a == b {
                    b = (a + 1) % self.universe;
                }
                oplog!(ctx, "get_many_mut([{},{}])", a, b);
                let ids = [a, b];
                let hashes = [self.h(a), self.h(b)];
                let (ca, cb) = (self.count(a), self.count(b));
                let compare = self.compare;
                let [ra, rb] = self.t.get_many_mut(hashes, |i, e| e.id() == ids[i]);
                if compare {
                    crate::check!(ra.is_some() == (ca > 0), "table get_many_mut: presence of {} wrong", a);
                    crate::check!(rb.is_some() == (cb > 0), "table get_many_mut: presence of {} wrong", b);
                }
                if let (Some(x), Some(y)) = (&ra, &rb) {
                    x.check();
                    y.check();
                    if std::mem::size_of::<E>() != 0 {
                        crate::check!(
                            (&**x as *const E) != (&**y as *const E),
                            "table get_many_mut returned the same element twice"
                        );
                    }
                }
                1
            }
            12 => {
                let id = self.pick_id(rng);
                let h = self.h(id);
                oplog!(ctx, "iter_hash({})", id);
                let mut addrs = Vec::new();
                let mut with_id = Vec::new();
                let mutable = rng.chance(1, 3);
                if mutable {
                    for e in self.t.iter_hash_mut(h) {
                        e.check();
                        addrs.push(e as *const E as usize);
                        if e.id() == id {
                            with_id.push(e.gen());
                        }
                    }
                } else {
                    for e in self.t.iter_hash(h) {
                        e.check();
                        addrs.push(e as *const E as usize);
                        if e.id() == id {
                            with_id.push(e.gen());
                        }
                    }
                }
                crate::check!(addrs.len() <= self.t.len(), "iter_hash yielded {} elements from a table of {}", addrs.len(), self.t.len());
                if std::mem::size_of::<E>() != 0 {
                    let mut a = addrs.clone();
                    a.sort();
                    a.dedup();
                    crate::check!(a.len() == addrs.len(), "iter_hash({}) yielded the same element twice", id);
                }
                if self.compare {
                    // every stored element that was inserted with hash h must be yielded; by
                    // construction those are exactly the elements whose id hashes to h
                    let mut want: Vec<u16> = self.model.iter().filter(|e| self.h(e.0) == h && e.0 == id).map(|e| e.1).collect();
                    want.sort();
                    with_id.sort();
                    if want != with_id {
                        crate::viol!("iter_hash({}): yielded gens {:?} of that id, the model holds {:?}", id, with_id, want);
                    }
                    let same_hash_total = self.model.iter().filter(|e| self.h(e.0) == h).count();
                    crate::check!(addrs.len() >= same_hash_total, "iter_hash({}): yielded {} elements but {} stored elements have this hash", id, addrs.len(), same_hash_total);
                }
                addrs.len() as u64 * 0 + with_id.len() as u64
            }
            13 => {
                let sub = rng.below(4);
                oplog!(ctx, "iterate sub{}", sub);
                let len = self.t.len();
                let mut n = 0;
                let mut acc = 0u64;
                match sub {
                    3 => {
                        // the provided Iterator methods, held to their definitions over next()
                        let k = rng.usize_below(len + 2);
                        let st = 1 + rng.usize_below(4);
                        let hit = self.t.iter().nth(k).map(|e| {
                            e.check();
                            (e.id(), e.gen())
                        });
                        crate::check!(hit.is_some() == (k < len), "table iter().nth({}) is_some = {} with len() {}", k, hit.is_some(), len);
                        if let Some(e) = hit {
                            crate::check!(!self.compare || self.model.contains(&e), "table iter().nth({}) yielded {:?} which the model does not hold", k, e);
                        }
                        let a = self.t.iter().skip(k).count();
                        crate::check!(a == len.saturating_sub(k), "table iter().skip({}).count() = {} with len() {}", k, a, len);
                        let b = self.t.iter_mut().step_by(st).count();
                        crate::check!(b == (len + st - 1) / st, "table iter_mut().step_by({}).count() = {} with len() {}", st, b, len);
                        let m1 = self.t.iter_mut().nth(k).is_some();
                        crate::check!(m1 == (k < len), "table iter_mut().nth({}) is_some = {} with len() {}", k, m1, len);
                        let l = self.t.iter().last().is_some();
                        crate::check!(l == (len > 0), "table iter().last() is_some = {} with len() {}", l, len);
                        acc = hit.is_some() as u64 ^ ((a as u64) << 8) ^ ((b as u64) << 24);
                        n = len;
                    }
                    0 => {
                        for e in self.t.iter() {
                            e.check();
                            n += 1;
                        }
                    }
                    1 => {
                        for e in self.t.iter_mut() {
                            e.check();
                            n += 1;
                        }
                    }
                    _ => {
                        for e in &self.t {
                            e.check();
                            n += 1;
                        }
                    }
                }
                crate::check!(n == len, "table iteration yielded {} of {}", n, len);
                acc
            }
            14 => {
                oplog!(ctx, "clone (swap in)");
                let c = self.t.clone();
                crate::check!(c.len() == self.t.len(), "table clone len differs");
                self.t = c;
                0
            }
            15 => {
                let len = self.t.len();
                let take = if self.order_free { len } else { rng.usize_below(len + 1) };
                oplog!(ctx, "into_iter(take {} of {})", take, len);
                let old = std::mem::replace(&mut self.t, Table::new_in(CkAlloc));
                let mut it = old.into_iter();
                crate::check!(it.len() == len, "table into_iter len() {} for {}", it.len(), len);
                let mut seen = 0;
                for _ in 0..take {
                    if let Some(e) = it.next() {
                        self.known(&e, "into_iter");
                        seen += 1;
                    }
                }
                crate::check!(seen == take, "table into_iter yielded {} of {}", seen, take);
                drop(it);
                self.model.clear();
                len as u64
            }
            17 => {
                // Debug formatting (walks cloned raw iterators), IterHash clone/fold, &mut iteration, ExtractIf::size_hint
                let sub = rng.below(7);
                let id = self.pick_id(rng);
                let h = self.h(id);
                let len = self.t.len();
                oplog!(ctx, "fmt_misc sub{} id {}", sub, id);
                match sub {
                    0 => {
                        let s = format!("{:?}", self.t);
                        crate::check!(!s.is_empty(), "empty Debug output");
                    }
                    1 => {
                        let s = format!("{:?}", self.t.iter()) + &format!("{:?}", self.t.iter_mut());
                        crate::check!(!s.is_empty(), "empty Debug output");
                        let c2 = self.t.clone();
                        let mut it = c2.into_iter();
                        it.next();
                        let _ = format!("{:?}", it);
                        let mut c3 = self.t.clone();
                        let mut d = c3.drain();
                        d.next();
                        let _ = format!("{:?}", d);
                    }
                    2 => {
                        let it = self.t.iter_hash(h);
                        let a: Vec<usize> = it.clone().map(|e| e as *const E as usize).collect();
                        let b = it.fold(Vec::new(), |mut v, e| {
                            e.check();
                            v.push(e as *const E as usize);
                            v
                        });
                        crate::check!(a == b, "IterHash: a clone and fold() disagree ({} vs {} elements)", a.len(), b.len());
                        let _ = format!("{:?}", self.t.iter_hash(h));
                        let n = self.t.iter_hash_mut(h).fold(0usize, |n, e| {
                            e.check();
                            n + 1
                        });
                        crate::check!(n == a.len(), "IterHashMut::fold visits {} elements, IterHash {}", n, a.len());
                        let _ = format!("{:?}", self.t.iter_hash_mut(h));
                    }
                    3 => {
                        let mut n = 0;
                        for e in &mut self.t {
                            e.check();
                            n += 1;
                        }
                        crate::check!(n == len, "for e in &mut table yields {} of {}", n, len);
                    }
                    4 => {
                        let it = self.t.extract_if(|_| false);
                        let (lo, hi) = it.size_hint();
                        crate::check!(lo == 0 && hi.map_or(true, |h| h >= len), "ExtractIf::size_hint() = ({}, {:?}) for {} elements", lo, hi, len);
                        drop(it);
                        crate::check!(self.t.len() == len, "an unused ExtractIf changed the table");
                    }
                    5 => {
                        let e = self.t.entry(h, |e| e.id() == id, hs);
                        let s = format!("{:?}", e);
                        crate::check!(!s.is_empty(), "empty Debug output");
                    }
                    _ => {
                        match self.t.find_entry(h, |e| e.id() == id) {
                            Ok(o) => {
                                let _ = format!("{:?}", o);
                            }
                            Err(a) => {
                                let _ = format!("{:?}", a);
                            }
                        }
                    }
                }
                sub
            }
            _ => {
                let sub = rng.below(6);
                let len = self.t.len();
                let k = rng.usize_below(len + 1);
                oplog!(ctx, "leak sub{} after {} (len {})", sub, k, len);
                match sub {
                    0 => {
                        // valid and possibly emptied: what the table still holds must be live elements the drain had not handed out
                        let mut d = self.t.drain();
                        let mut yielded: Vec<(u32, u16)> = Vec::new();
                        for _ in 0..k {
                            if let Some(e) = d.next() {
                                e.check();
                                yielded.push((e.id(), e.gen()));
                            }
                        }
                        std::mem::forget(d);
                        ctx.leak_ok = true;
                        let mut kept: Vec<(u32, u16)> = Vec::new();
                        for e in self.t.iter() {
                            e.check();
                            kept.push((e.id(), e.gen()));
                        }
                        crate::check!(kept.len() == self.t.len(), "table after a leaked Drain: len() {} but iter() yields {}", self.t.len(), kept.len());
                        if self.compare {
                            // as multisets: kept + yielded must fit into what was there before
                            let mut before = self.model.clone();
                            for x in yielded.iter().chain(kept.iter()) {
                                match before.iter().position(|e| e == x) {
                                    Some(p) => {
                                        before.swap_remove(p);
                                    }
                                    None => crate::viol!("table after a leaked Drain still holds {:?}, which the drain had already handed out (or which was never stored)", x),
                                }
                            }
                        }
                        self.model = kept;
                    }
                    1 => {
                        let salt = rng.next();
                        let mut it = self.t.extract_if(|e| !pred(salt, e.id(), e.gen()));
                        let mut got = Vec::new();
                        for _ in 0..k {
                            match it.next() {
                                Some(e) => got.push((e.id(), e.gen())),
                                None => break,
                            }
                        }
                        std::mem::forget(it);
                        for (id, g) in got {
                            self.remove_model(id, g);
                        }
                    }
                    2 => {
                        let mut it = self.t.iter_mut();
                        for _ in 0..k {
                            it.next();
                        }
                        std::mem::forget(it);
                    }
                    3 => {
                        let old = std::mem::replace(&mut self.t, Table::new_in(CkAlloc));
                        let mut it = old.into_iter();
                        for _ in 0..k {
                            if let Some(e) = it.next() {
                                e.check();
                            }
                        }
                        std::mem::forget(it);
                        ctx.leak_ok = true;
                        self.model.clear();
                    }
                    4 => {
                        let id = self.pick_id(rng);
                        let h = self.h(id);
                        let e = self.t.entry(h, |e| e.id() == id, hs);
                        std::mem::forget(e);
                    }
                    _ => {
                        // occupied entry removed, the vacant entry forgotten: the element is out, the slot free
                        let id = self.pick_id(rng);
                        let h = self.h(id);
                        if let Ok(occ) = self.t.find_entry(h, |e| e.id() == id) {
                            let (oid, og) = (occ.get().id(), occ.get().gen());
                            let (old, vac) = occ.remove();
                            old.check();
                            std::mem::forget(vac);
                            self.remove_model(oid, og);
                        }
                    }
                }
                sub
            }
        }
    }

    pub fn validate(&mut self, ctx: &mut Ctx, opname: &str) {
        let d = self.t.verif_dump();
        let prev = self.facts;
        let mut f = validate::check_safety(&d, opname);
        if self.lawful {
            let t = &self.t;
            let bh = self.bh;
            validate::check_findable(
                &d,
                &mut f,
                &mut |i| {
                    t.verif_bucket(i).map(|e| {
                        e.check();
                        plan_hash(bh.plan, bh.salt, e.id() as u64)
                    })
                },
                opname,
            );
        }
        let len = self.t.len();
        crate::check!(len == d.items, "{}: table len() {} != items {}", opname, len, d.items);
        crate::check!(self.t.capacity() >= len, "{}: table capacity {} < len {}", opname, self.t.capacity(), len);
        let mut got: Vec<(u32, u16)> = Vec::with_capacity(len);
        for e in self.t.iter() {
            e.check();
            got.push((e.id(), e.gen()));
        }
        crate::check!(got.len() == len, "{}: table iter() yields {} but len() is {}", opname, got.len(), len);
        if self.compare {
            got.sort();
            let mut want = self.model.clone();
            want.sort();
            if got != want {
                crate::viol!(
                    "{}: table contents differ from the multiset model: table {} elements, model {}; first table-only {:?}, first model-only {:?}",
                    opname,
                    got.len(),
                    want.len(),
                    got.iter().find(|x| !want.contains(x)),
                    want.iter().find(|x| !got.contains(x))
                );
            }
            // every stored element is returned by a lookup with its hash and a matching closure
            for (id, g) in self.model.iter().take(128) {
                let h = self.h(*id);
                if self.t.find(h, |e| e.id() == *id && e.gen() == *g).is_none() {
                    crate::viol!("{}: stored element ({},g{}) is not returned by find with its hash {:#x}", opname, id, g, h);
                }
            }
        }
        let c = ckalloc::counters();
        let alloc_delta = c.allocs - self.allocs_seen;
        self.allocs_seen = c.allocs;
        if prev.buckets != 0 && f.buckets != prev.buckets && alloc_delta > 0 {
            ctx.bump(if f.buckets > prev.buckets { "resize_grow" } else { "resize_shrink" });
        }
        if prev.deleted > 0 && f.deleted == 0 && f.buckets == prev.buckets && alloc_delta == 0 && f.full > prev.full {
            ctx.bump("rehash_in_place");
        }
        if f.deleted > 0 {
            ctx.bump("steps_with_tombstones");
        }
        if f.full == f.capacity && f.buckets > 1 {
            ctx.bump("steps_at_full_load");
        }
        ctx.bump(match f.class {
            0 => "class_singleton",
            1 => "class_lt_group",
            2 => "class_eq_group",
            _ => "class_gt_group",
        });
        ctx.max("max_tombstones", f.deleted as u64);
        ctx.max("max_probe_groups", f.max_probe_groups as u64);
        ctx.max("max_buckets", f.buckets as u64);
        let dup = {
            let mut ids: Vec<u32> = self.model.iter().map(|e| e.0).collect();
            ids.sort();
            let n = ids.len();
            ids.dedup();
            n - ids.len()
        };
        if dup > 0 {
            ctx.bump("steps_with_duplicates");
        }
        ctx.sig_parts(&[validate::state_sig(&f) as u64, crate::ctx::prop_salt(opname), 7]);
        self.facts = f;
    }

    pub fn contents_digest(&self) -> u64 {
        let mut acc = 0u64;
        for e in self.t.iter() {
            let mut d = Digest::default();
            d.u64(e.id() as u64);
            d.u64(e.gen() as u64);
            acc = acc.wrapping_add(d.0);
        }
        acc ^ (self.t.len() as u64)
    }

    pub fn describe(&self, note: &str) -> Json {
        let mut j = Json::obj();
        j.set("collection", Json::s("HashTable"));
        j.set("elem", Json::s(E::NAME));
        j.set("plan", Json::s(self.bh.plan.name()));
        j.set("salt", Json::i(self.bh.salt));
        j.set("universe", Json::i(self.universe));
        j.set("note", Json::s(note));
        j
    }
}
