//! M5: structure validator over `RawDump` (invariants I1-I6 of DESIGN.md §2)
//! plus coverage facts derived from the dump.

use hashbrown::verif::{bucket_mask_to_capacity, tag_full, RawDump};

pub const EMPTY: u8 = 0xFF;
pub const DELETED: u8 = 0x80;

#[derive(Clone, Copy, Debug, Default, PartialEq, Eq)]
pub struct Facts {
    pub buckets: usize,
    pub full: usize,
    pub deleted: usize,
    pub empty: usize,
    pub capacity: usize,
    /// 0 singleton, 1 smaller than a group, 2 exactly one group, 3 several groups
    pub class: u8,
    pub growth_exact: bool,
    /// largest number of groups a stored element sits away from its home group
    pub max_probe_groups: usize,
}

/// Checks I1-I4 and I6. Violations are recorded in the sink; returns the facts.
pub fn check_safety(d: &RawDump, ctx: &str) -> Facts {
    let w = d.group_width;
    let buckets = d.bucket_mask.wrapping_add(1);
    let mut f = Facts { buckets, ..Facts::default() };
    if !buckets.is_power_of_two() {
        crate::viol!("{}: I1 bucket count {} is not a power of two", ctx, buckets);
        return f;
    }
    if d.is_empty_singleton {
        // I6
        crate::check!(d.bucket_mask == 0, "{}: I6 singleton with bucket_mask {}", ctx, d.bucket_mask);
        crate::check!(d.items == 0, "{}: I6 singleton with items {}", ctx, d.items);
        crate::check!(d.growth_left == 0, "{}: I6 singleton with growth_left {}", ctx, d.growth_left);
        crate::check!(d.allocation.is_none(), "{}: I6 singleton owns a block", ctx);
        crate::check!(d.ctrl.iter().all(|b| *b == EMPTY), "{}: I6 static group is not all EMPTY", ctx);
        f.class = 0;
        f.growth_exact = true;
        return f;
    }
    if d.ctrl.len() != buckets + w {
        crate::viol!("{}: dump has {} control bytes, expected {}", ctx, d.ctrl.len(), buckets + w);
        return f;
    }
    f.class = if buckets < w {
        1
    } else if buckets == w {
        2
    } else {
        3
    };
    // I1
    for (i, b) in d.ctrl[..buckets].iter().enumerate() {
        match *b {
            EMPTY => f.empty += 1,
            DELETED => f.deleted += 1,
            x if x & 0x80 == 0 => f.full += 1,
            x => crate::viol!("{}: I1 control byte {} has the invalid value {:#04x}", ctx, i, x),
        }
    }
    // I2
    crate::check!(
        d.items == f.full,
        "{}: I2 items = {} but {} control bytes are FULL ({} buckets, {} DELETED)",
        ctx, d.items, f.full, buckets, f.deleted
    );
    // I3
    let cap = bucket_mask_to_capacity(d.bucket_mask);
    f.capacity = cap;
    crate::check!(cap < buckets, "{}: capacity {} is not below the bucket count {}", ctx, cap, buckets);
    let used = f.full + f.deleted;
    if used > cap || d.growth_left > cap - used {
        crate::viol!(
            "{}: I3 growth_left = {} over-promises: capacity {} - full {} - deleted {} (buckets {})",
            ctx, d.growth_left, cap, f.full, f.deleted, buckets
        );
    }
    f.growth_exact = used <= cap && d.growth_left == cap - used;
    crate::check!(f.empty >= 1, "{}: I3 no EMPTY control byte left: probe loops cannot terminate", ctx);
    // I4
    if buckets >= w {
        for i in 0..w {
            crate::check!(
                d.ctrl[buckets + i] == d.ctrl[i],
                "{}: I4 mirror byte {} is {:#04x} but control byte {} is {:#04x}",
                ctx, buckets + i, d.ctrl[buckets + i], i, d.ctrl[i]
            );
        }
    } else {
        for i in 0..buckets {
            crate::check!(
                d.ctrl[w + i] == d.ctrl[i],
                "{}: I4 (small table) mirror byte {} is {:#04x} but control byte {} is {:#04x}",
                ctx, w + i, d.ctrl[w + i], i, d.ctrl[i]
            );
        }
        for i in buckets..w {
            crate::check!(
                d.ctrl[i] == EMPTY,
                "{}: I4 (small table) padding control byte {} is {:#04x}, not EMPTY",
                ctx, i, d.ctrl[i]
            );
        }
    }
    // allocation geometry as the table itself computes it
    if let Some((ptr, size, align)) = d.allocation {
        let ctrl_off = d.ctrl_addr.wrapping_sub(ptr);
        crate::check!(ptr % align == 0, "{}: block {:#x} not aligned to {}", ctx, ptr, align);
        crate::check!(
            ctrl_off >= d.elem_size * buckets && ctrl_off + buckets + w <= size,
            "{}: geometry: ctrl offset {} size {} buckets {} elem {}",
            ctx, ctrl_off, size, buckets, d.elem_size
        );
        crate::check!(d.ctrl_addr % w == 0, "{}: control bytes at {:#x} not group-aligned", ctx, d.ctrl_addr);
        if d.elem_size != 0 {
            crate::check!(d.ctrl_addr % d.elem_align == 0, "{}: data end {:#x} not aligned for elements", ctx, d.ctrl_addr);
        }
    } else {
        crate::viol!("{}: allocated table reports no block", ctx);
    }
    f
}

/// I5: every FULL bucket `i` whose element hashes to `hash_of(i)` carries the
/// right tag and is reachable by the lookup's own probe loop. `hash_of`
/// returns None for buckets that are not FULL (or cannot be read).
pub fn check_findable(d: &RawDump, f: &mut Facts, hash_of: &mut dyn FnMut(usize) -> Option<u64>, ctx: &str) {
    if d.is_empty_singleton {
        return;
    }
    let w = d.group_width;
    let buckets = d.bucket_mask + 1;
    if d.ctrl.len() != buckets + w {
        return;
    }
    let mask = d.bucket_mask;
    for i in 0..buckets {
        if d.ctrl[i] & 0x80 != 0 {
            continue;
        }
        let Some(h) = hash_of(i) else {
            crate::viol!("{}: I5 bucket {} is FULL but holds no readable element", ctx, i);
            continue;
        };
        let tag = tag_full(h);
        if d.ctrl[i] != tag {
            crate::viol!("{}: I5 bucket {} has tag {:#04x} but its element hashes to tag {:#04x}", ctx, i, d.ctrl[i], tag);
            continue;
        }
        let mut pos = (h as usize) & mask;
        let mut stride = 0usize;
        let mut steps = 0usize;
        let mut found = false;
        loop {
            let win = &d.ctrl[pos..pos + w];
            for (j, b) in win.iter().enumerate() {
                if *b == tag && ((pos + j) & mask) == i {
                    found = true;
                }
            }
            if found {
                break;
            }
            if win.iter().any(|b| *b == EMPTY) {
                break;
            }
            stride += w;
            if stride > mask + w {
                break;
            }
            pos = (pos + stride) & mask;
            steps += 1;
        }
        if !found {
            crate::viol!(
                "{}: I5 element in bucket {} (hash {:#x}, home {}) is not reachable by the probe sequence",
                ctx, i, h, (h as usize) & mask
            );
        } else {
            f.max_probe_groups = f.max_probe_groups.max(steps);
        }
    }
}

/// Signature of a table state for the distinct-state counters:
/// (class, load decile, has tombstones, log2 buckets).
pub fn state_sig(f: &Facts) -> u32 {
    let decile = if f.buckets == 0 { 0 } else { (f.full * 10 / f.buckets.max(1)) as u32 };
    let lg = f.buckets.max(1).trailing_zeros();
    (f.class as u32) | (decile << 2) | (((f.deleted > 0) as u32) << 6) | (lg << 7) | (((f.full == f.capacity) as u32) << 13)
}
