//! M6: callback fuses. One counter per callback class; when armed with
//! `(class, k)` the k-th (0-based) invocation of that class panics once and
//! the fuse disarms itself, so there are never two injected panics in flight.

use crate::util::Injected;
use std::sync::atomic::{AtomicI64, AtomicU64, Ordering};

#[derive(Clone, Copy, Debug, PartialEq, Eq, PartialOrd, Ord)]
#[repr(usize)]
pub enum Class {
    Hash = 0,
    BuildHasher = 1,
    Eq = 2,
    Clone = 3,
    Drop = 4,
    Closure = 5,
    Into = 6,
    IterNext = 7,
    /// `Allocator::allocate` of the collection's (custom) allocator
    Alloc = 8,
}

pub const CLASSES: [Class; 9] = [
    Class::Hash,
    Class::BuildHasher,
    Class::Eq,
    Class::Clone,
    Class::Drop,
    Class::Closure,
    Class::Into,
    Class::IterNext,
    Class::Alloc,
];

impl Class {
    pub fn name(self) -> &'static str {
        match self {
            Class::Hash => "hash",
            Class::BuildHasher => "build_hasher",
            Class::Eq => "eq",
            Class::Clone => "clone",
            Class::Drop => "drop",
            Class::Closure => "closure",
            Class::Into => "into",
            Class::IterNext => "iter_next",
            Class::Alloc => "alloc",
        }
    }
}

const N: usize = 9;
#[allow(clippy::declare_interior_mutable_const)]
const Z: AtomicU64 = AtomicU64::new(0);
static COUNTS: [AtomicU64; N] = [Z; N];
/// armed class index (or -1) and the countdown until it fires
static ARMED_CLASS: AtomicI64 = AtomicI64::new(-1);
static ARMED_LEFT: AtomicI64 = AtomicI64::new(0);
static FIRED: AtomicU64 = AtomicU64::new(0);

/// Resets all counters (does not change arming).
pub fn reset_counts() {
    for c in COUNTS.iter() {
        c.store(0, Ordering::SeqCst);
    }
}

pub fn count(c: Class) -> u64 {
    COUNTS[c as usize].load(Ordering::SeqCst)
}

pub fn counts() -> [u64; N] {
    let mut out = [0; N];
    for (i, c) in COUNTS.iter().enumerate() {
        out[i] = c.load(Ordering::SeqCst);
    }
    out
}

/// Arms the fuse: the `k`-th invocation (0-based, counted from now) of `class` panics.
pub fn arm(class: Class, k: u64) {
    ARMED_LEFT.store(k as i64, Ordering::SeqCst);
    ARMED_CLASS.store(class as i64, Ordering::SeqCst);
}

pub fn disarm() {
    ARMED_CLASS.store(-1, Ordering::SeqCst);
}

pub fn is_armed() -> bool {
    ARMED_CLASS.load(Ordering::SeqCst) >= 0
}

pub fn fired_total() -> u64 {
    FIRED.load(Ordering::SeqCst)
}

/// Called by every instrumented callback.
#[inline]
pub fn tick(class: Class) {
    COUNTS[class as usize].fetch_add(1, Ordering::Relaxed);
    if ARMED_CLASS.load(Ordering::Relaxed) == class as i64 {
        if std::thread::panicking() {
            // a second panic while unwinding would abort the process; the
            // fuse stays armed and fires at the next invocation instead
            return;
        }
        let left = ARMED_LEFT.fetch_sub(1, Ordering::SeqCst);
        if left == 0 {
            ARMED_CLASS.store(-1, Ordering::SeqCst);
            FIRED.fetch_add(1, Ordering::SeqCst);
            std::panic::panic_any(Injected(class.name()));
        }
    }
}
