//! Small shared utilities: PRNG, JSON writer, violation sink, quiet panics.

use std::collections::BTreeMap;
use std::fmt::Write as _;
use std::sync::atomic::{AtomicBool, AtomicU64, Ordering};
use std::sync::Mutex;

// ---------------------------------------------------------------------------
// PRNG (splitmix64 seeding a xoshiro256**)

#[derive(Clone, Debug)]
pub struct Rng {
    s: [u64; 4],
}

pub fn splitmix64(x: u64) -> u64 {
    let mut z = x.wrapping_add(0x9E37_79B9_7F4A_7C15);
    z = (z ^ (z >> 30)).wrapping_mul(0xBF58_476D_1CE4_E5B9);
    z = (z ^ (z >> 27)).wrapping_mul(0x94D0_49BB_1331_11EB);
    z ^ (z >> 31)
}

impl Rng {
    pub fn new(seed: u64) -> Rng {
        let mut x = seed;
        let mut s = [0u64; 4];
        for v in s.iter_mut() {
            x = x.wrapping_add(0x9E37_79B9_7F4A_7C15);
            *v = splitmix64(x);
        }
        Rng { s }
    }
    /// Derives an independent stream.
    pub fn derive(seed: u64, a: u64, b: u64, c: u64) -> Rng {
        Rng::new(splitmix64(seed ^ splitmix64(a ^ splitmix64(b ^ splitmix64(c)))))
    }
    pub fn next(&mut self) -> u64 {
        let r = self.s[1].wrapping_mul(5).rotate_left(7).wrapping_mul(9);
        let t = self.s[1] << 17;
        self.s[2] ^= self.s[0];
        self.s[3] ^= self.s[1];
        self.s[1] ^= self.s[2];
        self.s[0] ^= self.s[3];
        self.s[2] ^= t;
        self.s[3] = self.s[3].rotate_left(45);
        r
    }
    /// Uniform in 0..n (n > 0).
    pub fn below(&mut self, n: u64) -> u64 {
        debug_assert!(n > 0);
        ((self.next() as u128 * n as u128) >> 64) as u64
    }
    pub fn usize_below(&mut self, n: usize) -> usize {
        self.below(n as u64) as usize
    }
    pub fn range(&mut self, lo: u64, hi_incl: u64) -> u64 {
        lo + self.below(hi_incl - lo + 1)
    }
    pub fn chance(&mut self, num: u64, den: u64) -> bool {
        self.below(den) < num
    }
    pub fn pick<'a, T>(&mut self, xs: &'a [T]) -> &'a T {
        &xs[self.usize_below(xs.len())]
    }
    /// Picks an index according to integer weights.
    pub fn weighted(&mut self, w: &[u32]) -> usize {
        let total: u64 = w.iter().map(|x| *x as u64).sum();
        let mut r = self.below(total.max(1));
        for (i, x) in w.iter().enumerate() {
            if r < *x as u64 {
                return i;
            }
            r -= *x as u64;
        }
        w.len() - 1
    }
}

// ---------------------------------------------------------------------------
// JSON value + writer (no external crates; also cheap under Miri)

#[derive(Clone, Debug)]
pub enum Json {
    Null,
    Bool(bool),
    Int(i128),
    Str(String),
    Arr(Vec<Json>),
    Obj(BTreeMap<String, Json>),
}

impl Json {
    pub fn obj() -> Json {
        Json::Obj(BTreeMap::new())
    }
    pub fn set(&mut self, k: &str, v: Json) -> &mut Json {
        if let Json::Obj(m) = self {
            m.insert(k.to_string(), v);
        }
        self
    }
    pub fn s(x: impl Into<String>) -> Json {
        Json::Str(x.into())
    }
    pub fn i(x: impl TryInto<i128>) -> Json {
        Json::Int(x.try_into().ok().unwrap_or(0))
    }
    pub fn to_string(&self) -> String {
        let mut s = String::new();
        self.write(&mut s);
        s
    }
    fn write(&self, out: &mut String) {
        match self {
            Json::Null => out.push_str("null"),
            Json::Bool(b) => out.push_str(if *b { "true" } else { "false" }),
            Json::Int(i) => {
                let _ = write!(out, "{}", i);
            }
            Json::Str(s) => {
                out.push('"');
                for c in s.chars() {
                    match c {
                        '"' => out.push_str("\\\""),
                        '\\' => out.push_str("\\\\"),
                        '\n' => out.push_str("\\n"),
                        '\r' => out.push_str("\\r"),
                        '\t' => out.push_str("\\t"),
                        c if (c as u32) < 0x20 => {
                            let _ = write!(out, "\\u{:04x}", c as u32);
                        }
                        c => out.push(c),
                    }
                }
                out.push('"');
            }
            Json::Arr(a) => {
                out.push('[');
                for (i, v) in a.iter().enumerate() {
                    if i > 0 {
                        out.push(',');
                    }
                    v.write(out);
                }
                out.push(']');
            }
            Json::Obj(m) => {
                out.push('{');
                for (i, (k, v)) in m.iter().enumerate() {
                    if i > 0 {
                        out.push(',');
                    }
                    Json::Str(k.clone()).write(out);
                    out.push(':');
                    v.write(out);
                }
                out.push('}');
            }
        }
    }
}

// ---------------------------------------------------------------------------
// Violation sink. Monitors never panic (they may run inside Drop or inside the
// allocator); they record here and the scenario loop checks after every step.

static VIOLATIONS: Mutex<Vec<String>> = Mutex::new(Vec::new());
static HAS_VIOLATION: AtomicBool = AtomicBool::new(false);

pub fn violation(msg: impl Into<String>) {
    let msg = msg.into();
    HAS_VIOLATION.store(true, Ordering::SeqCst);
    if let Ok(mut v) = VIOLATIONS.lock() {
        if v.len() < 64 {
            v.push(msg);
        }
    }
}

pub fn has_violation() -> bool {
    HAS_VIOLATION.load(Ordering::SeqCst)
}

pub fn take_violations() -> Vec<String> {
    HAS_VIOLATION.store(false, Ordering::SeqCst);
    match VIOLATIONS.lock() {
        Ok(mut v) => std::mem::take(&mut *v),
        Err(p) => std::mem::take(&mut *p.into_inner()),
    }
}

#[macro_export]
macro_rules! viol {
    ($($arg:tt)*) => { $crate::util::violation(format!($($arg)*)) };
}

/// `check!(cond, "fmt", args)` records a violation when `cond` is false.
#[macro_export]
macro_rules! check {
    ($cond:expr, $($arg:tt)*) => { if !($cond) { $crate::util::violation(format!($($arg)*)); } };
}

// ---------------------------------------------------------------------------
// Panics: injected panics carry this payload type and are not printed.

pub struct Injected(pub &'static str);

/// Message and source location of the most recent non-injected panic.
pub static LAST_PANIC: Mutex<String> = Mutex::new(String::new());

pub fn last_panic() -> String {
    LAST_PANIC.lock().map(|s| s.clone()).unwrap_or_default()
}

pub fn install_quiet_panic_hook() {
    let default = std::panic::take_hook();
    std::panic::set_hook(Box::new(move |info| {
        if info.payload().downcast_ref::<Injected>().is_some() {
            return;
        }
        let msg = if let Some(s) = info.payload().downcast_ref::<&'static str>() {
            s.to_string()
        } else if let Some(s) = info.payload().downcast_ref::<String>() {
            s.clone()
        } else {
            "<non-string payload>".to_string()
        };
        let loc = info.location().map(|l| format!("{}:{}", l.file(), l.line())).unwrap_or_default();
        if let Ok(mut g) = LAST_PANIC.lock() {
            *g = format!("{} at {}", msg, loc);
        }
        if EXPECT_PANIC.load(Ordering::SeqCst) > 0 {
            return;
        }
        default(info);
    }));
}

/// While > 0, library panics (e.g. the documented "duplicate keys found") are expected and not printed.
pub static EXPECT_PANIC: AtomicU64 = AtomicU64::new(0);

pub fn catch<R>(f: impl FnOnce() -> R) -> Result<R, Box<dyn std::any::Any + Send>> {
    std::panic::catch_unwind(std::panic::AssertUnwindSafe(f))
}

/// Runs `f`, expecting that it may panic with a library panic; the panic message is returned.
pub fn catch_expected<R>(f: impl FnOnce() -> R) -> Result<R, String> {
    EXPECT_PANIC.fetch_add(1, Ordering::SeqCst);
    let r = catch(f);
    EXPECT_PANIC.fetch_sub(1, Ordering::SeqCst);
    r.map_err(|p| payload_str(&p))
}

pub fn payload_str(p: &Box<dyn std::any::Any + Send>) -> String {
    if let Some(i) = p.downcast_ref::<Injected>() {
        format!("injected:{}", i.0)
    } else if let Some(s) = p.downcast_ref::<&'static str>() {
        s.to_string()
    } else if let Some(s) = p.downcast_ref::<String>() {
        s.clone()
    } else {
        "<non-string panic payload>".to_string()
    }
}

pub fn is_injected(p: &Box<dyn std::any::Any + Send>) -> bool {
    p.downcast_ref::<Injected>().is_some()
}

// ---------------------------------------------------------------------------
// FNV-1a digest used for transcripts and distinct-signature sets.

#[derive(Clone, Copy, Debug)]
pub struct Digest(pub u64);
impl Default for Digest {
    fn default() -> Self {
        Digest(0xcbf2_9ce4_8422_2325)
    }
}
impl Digest {
    pub fn u64(&mut self, x: u64) {
        for b in x.to_le_bytes() {
            self.0 ^= b as u64;
            self.0 = self.0.wrapping_mul(0x0000_0100_0000_01B3);
        }
    }
    pub fn bytes(&mut self, x: &[u8]) {
        for b in x {
            self.0 ^= *b as u64;
            self.0 = self.0.wrapping_mul(0x0000_0100_0000_01B3);
        }
    }
}

// ---------------------------------------------------------------------------
/// Set for the Miri lane (about four orders of magnitude slower): drivers validate less often there.
pub static SLOW_LANE: AtomicBool = AtomicBool::new(false);
pub fn slow_lane() -> bool {
    SLOW_LANE.load(Ordering::Relaxed)
}

/// Decorrelates a scenario index from the shard count before it selects a case.
pub fn mix(i: u64) -> u64 {
    splitmix64(i ^ 0x51ed_270b) >> 3
}

// ---------------------------------------------------------------------------
// watch on the process-global allocator (see main.rs)

static GWATCH_ON: std::sync::atomic::AtomicBool = std::sync::atomic::AtomicBool::new(false);
static GWATCH_MAX: std::sync::atomic::AtomicUsize = std::sync::atomic::AtomicUsize::new(0);

#[inline]
pub fn galloc_note(size: usize) {
    if GWATCH_ON.load(Ordering::Relaxed) {
        GWATCH_MAX.fetch_max(size, Ordering::Relaxed);
    }
}
/// Starts recording the largest single request made to the global allocator.
pub fn galloc_watch_start() {
    GWATCH_MAX.store(0, Ordering::Relaxed);
    GWATCH_ON.store(true, Ordering::Relaxed);
}
/// Stops recording; returns the largest request seen since `galloc_watch_start`.
pub fn galloc_watch_stop() -> usize {
    GWATCH_ON.store(false, Ordering::Relaxed);
    GWATCH_MAX.load(Ordering::Relaxed)
}
