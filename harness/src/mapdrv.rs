//! HashMap driver: executes one public-API call at a time on the real map and
//! on the association-list model (M4), compares what is observable, and runs
//! the structure validator (M5) between calls.

use crate::ckalloc::{self, CkAlloc};
use crate::ctx::Ctx;
use crate::oplog;
use crate::elem::Elem;
use crate::plan::{KeyRef, Plan, PlanBH, INTO_GEN};
use crate::util::{catch, catch_expected, is_injected, payload_str, splitmix64, Digest, Json, Rng};
use crate::validate::{self, Facts};
use hashbrown::hash_map::{Entry, EntryRef, RawEntryMut, RustcEntry};

pub type Map<K, V> = hashbrown::HashMap<K, V, PlanBH, CkAlloc>;

#[derive(Clone, Copy, Debug, PartialEq, Eq, PartialOrd, Ord)]
pub struct ME {
    pub id: u32,
    pub kgen: u16,
    pub v: u32,
    pub vgen: u16,
}

#[derive(Clone, Debug, Default)]
pub struct Model {
    pub e: Vec<ME>,
}
impl Model {
    pub fn pos(&self, id: u32) -> Option<usize> {
        self.e.iter().position(|x| x.id == id)
    }
    pub fn get(&self, id: u32) -> Option<ME> {
        self.pos(id).map(|p| self.e[p])
    }
    /// insert: replaces the value, keeps the stored key; returns the old entry
    pub fn insert(&mut self, id: u32, kgen: u16, v: u32, vgen: u16) -> Option<ME> {
        match self.pos(id) {
            Some(p) => {
                let old = self.e[p];
                self.e[p].v = v;
                self.e[p].vgen = vgen;
                Some(old)
            }
            None => {
                self.e.push(ME { id, kgen, v, vgen });
                None
            }
        }
    }
    pub fn remove(&mut self, id: u32) -> Option<ME> {
        self.pos(id).map(|p| self.e.remove(p)) // order-preserving: the model order must not depend on removal order
    }
    pub fn len(&self) -> usize {
        self.e.len()
    }
}

pub const NOPS: usize = 25;
pub const OP_NAMES: [&str; NOPS] = [
    "insert", "get", "get_mut", "contains_key", "get_key_value", "index", "remove", "try_insert", "entry", "entry_ref",
    "extend", "from_iter", "clear", "reserve_shrink", "retain", "drain", "extract_if", "clone", "iterate", "raw_entry_mut",
    "rustc_entry", "get_many_mut", "leak", "raw_entry", "combinators_fmt",
];
/// general mix
pub const W_GENERAL: [u32; NOPS] = [30, 10, 5, 4, 5, 3, 18, 5, 14, 8, 3, 1, 1, 5, 2, 1, 2, 2, 3, 8, 6, 3, 0, 3, 6];
/// mix for memory-safety runs: as general, plus leak ops
pub const W_LEAKY: [u32; NOPS] = [30, 8, 5, 3, 4, 2, 18, 4, 12, 7, 3, 1, 1, 5, 3, 2, 3, 3, 3, 7, 5, 3, 4, 2, 6];
/// entry-heavy mix (C14)
pub const W_ENTRY: [u32; NOPS] = [8, 3, 1, 2, 2, 0, 6, 4, 30, 20, 1, 0, 1, 4, 1, 0, 0, 1, 1, 30, 20, 0, 0, 5, 20];
/// very large, sparse tables: point operations, clear/drain/retain/extract_if, no cloning or rebuilding
pub const W_HUGE: [u32; NOPS] = [30, 12, 3, 6, 3, 2, 14, 3, 8, 5, 2, 0, 4, 0, 3, 3, 3, 0, 2, 5, 3, 2, 0, 3, 2];
/// insert/remove churn (C13)
pub const W_CHURN: [u32; NOPS] = [40, 5, 0, 3, 0, 0, 40, 2, 6, 3, 0, 0, 0, 0, 0, 0, 0, 0, 0, 3, 2, 0, 0, 0, 1];

pub struct MapDrv<K: Elem, V: Elem> {
    pub map: Map<K, V>,
    pub model: Model,
    pub bh: PlanBH,
    pub universe: u32,
    /// compare every observation with the model (lawful hashers only)
    pub compare: bool,
    /// hasher is a pure function of the key id
    pub lawful: bool,
    /// no op whose observations depend on iteration order or capacity (for C18 transcripts)
    pub order_free: bool,
    /// validate the structure every n-th step
    pub validate_every: u32,
    /// upper bound on the number of live keys (inserts beyond it turn into removes)
    pub max_live: usize,
    gen: u16,
    pub tr: Digest,
    pub facts: Facts,
    pub steps: u64,
    allocs_seen: u64,
    pub dead: bool,
    /// skip the O(n log n) contents comparison in validate() (large tables; the caller checks the touched entries itself)
    pub skip_contents: bool,
}

fn pred_id(salt: u64, id: u32) -> bool {
    splitmix64(salt ^ id as u64) % 3 != 0
}

impl<K: Elem, V: Elem> MapDrv<K, V> {
    pub fn new(bh: PlanBH, universe: u32, cap: usize) -> Self {
        crate::plan::set_current(bh.plan, bh.salt);
        let map = if cap == 0 {
            Map::with_hasher_in(bh, CkAlloc)
        } else {
            Map::with_capacity_and_hasher_in(cap, bh, CkAlloc)
        };
        MapDrv {
            map,
            model: Model::default(),
            bh,
            universe: universe.min(K::ID_SPACE).max(1),
            compare: bh.plan.is_lawful(),
            lawful: bh.plan.is_lawful(),
            order_free: false,
            validate_every: if crate::util::slow_lane() { 6 } else { 1 },
            max_live: usize::MAX,
            gen: 0,
            tr: Digest::default(),
            facts: Facts::default(),
            steps: 0,
            allocs_seen: ckalloc::counters().allocs,
            dead: false,
            skip_contents: false,
        }
    }

    fn next_gen(&mut self) -> u16 {
        self.gen = self.gen.wrapping_add(1);
        if self.gen == INTO_GEN {
            self.gen = self.gen.wrapping_add(1);
        }
        self.gen
    }
    pub fn mk_k(&mut self, id: u32) -> (K, u16) {
        let g = if K::HAS_GEN { self.next_gen() } else { 0 };
        (K::make(id, g), g)
    }
    pub fn mk_v(&mut self, rng: &mut Rng) -> (V, u32, u16) {
        let v = rng.below(V::ID_SPACE.min(1 << 20) as u64) as u32;
        let g = if V::HAS_GEN { self.next_gen() } else { 0 };
        (V::make(v, g), v, g)
    }
    fn pick_id(&self, rng: &mut Rng) -> u32 {
        rng.below(self.universe as u64) as u32
    }
    fn pick_present(&self, rng: &mut Rng) -> Option<u32> {
        if self.model.e.is_empty() {
            None
        } else {
            Some(self.model.e[rng.usize_below(self.model.e.len())].id)
        }
    }
    fn pick_absent(&self, rng: &mut Rng) -> Option<u32> {
        for _ in 0..8 {
            let id = self.pick_id(rng);
            if self.model.pos(id).is_none() {
                return Some(id);
            }
        }
        None
    }

    fn chk_v(&self, got: &V, exp: &ME, what: &str) {
        got.check();
        if self.compare && (got.id() != exp.v || got.gen() != exp.vgen) {
            crate::viol!(
                "{}: value of key {} is {:?}, model has v={} g={}",
                what, exp.id, got, exp.v, exp.vgen
            );
        }
    }
    fn chk_k(&self, got: &K, exp: &ME, what: &str) {
        got.check();
        if self.compare && (got.id() != exp.id || got.gen() != exp.kgen) {
            crate::viol!(
                "{}: stored key is {:?}, model has id={} g={} (the first inserted key instance must be kept)",
                what, got, exp.id, exp.kgen
            );
        }
    }
    fn presence(&self, got: bool, id: u32, what: &str) {
        if self.compare && got != self.model.pos(id).is_some() {
            crate::viol!(
                "{}: key {} reported {} but the model says {}",
                what,
                id,
                if got { "present" } else { "absent" },
                if got { "absent" } else { "present" }
            );
        }
    }

    /// One random operation. Returns false when the scenario must stop (violation or dead map).
    pub fn step(&mut self, ctx: &mut Ctx, rng: &mut Rng, weights: &[u32; NOPS]) -> bool {
        if self.dead {
            return false;
        }
        let mut op = rng.weighted(weights);
        if self.model.len() >= self.max_live && matches!(op, 0 | 7 | 8 | 9 | 10 | 19 | 20 | 24) {
            op = 6;
        }
        self.steps += 1;
        ctx.evaluations += 1;
        let r = {
            let this = &mut *self;
            let ctx2 = &mut *ctx;
            catch(move || this.exec(op, ctx2, rng))
        };
        match r {
            Ok(obs) => {
                self.tr.u64(op as u64);
                self.tr.u64(obs);
                if ctx.only.is_some() && ctx.xarg("trace").is_some() {
                    println!("TR {} {} obs={} digest={:x}", self.steps, OP_NAMES[op], obs, self.tr.0);
                }
            }
            Err(p) => {
                if is_injected(&p) {
                    // fuses are only armed by the fault-enumeration code, never here
                    crate::viol!("injected panic escaped outside fault enumeration in {}", OP_NAMES[op]);
                } else {
                    crate::viol!("unexpected panic in {}: {}", OP_NAMES[op], payload_str(&p));
                }
                self.dead = true;
                return false;
            }
        }
        if self.steps % self.validate_every as u64 == 0 {
            self.validate(ctx, OP_NAMES[op]);
        }
        !crate::util::has_violation()
    }

    fn exec(&mut self, op: usize, ctx: &mut Ctx, rng: &mut Rng) -> u64 {
        match op {
            0 => self.op_insert(ctx, rng),
            1 => self.op_get(ctx, rng),
            2 => self.op_get_mut(ctx, rng),
            3 => self.op_contains(ctx, rng),
            4 => self.op_get_key_value(ctx, rng),
            5 => self.op_index(ctx, rng),
            6 => self.op_remove(ctx, rng),
            7 => self.op_try_insert(ctx, rng),
            8 => self.op_entry(ctx, rng),
            9 => self.op_entry_ref(ctx, rng),
            10 => self.op_extend(ctx, rng),
            11 => self.op_from_iter(ctx, rng),
            12 => {
                oplog!(ctx, "clear");
                self.map.clear();
                self.model.e.clear();
                0
            }
            13 => self.op_reserve_shrink(ctx, rng),
            14 => self.op_retain(ctx, rng),
            15 => self.op_drain(ctx, rng),
            16 => self.op_extract_if(ctx, rng),
            17 => self.op_clone(ctx, rng),
            18 => self.op_iterate(ctx, rng),
            19 => self.op_raw_entry_mut(ctx, rng),
            20 => self.op_rustc_entry(ctx, rng),
            21 => self.op_get_many_mut(ctx, rng),
            22 => self.op_leak(ctx, rng),
            23 => self.op_raw_entry(ctx, rng),
            24 => self.op_combinators_fmt(ctx, rng),
            _ => 0,
        }
    }

    // ---- plain operations ------------------------------------------------------------

    fn op_insert(&mut self, ctx: &mut Ctx, rng: &mut Rng) -> u64 {
        let id = self.pick_id(rng);
        let (k, kg) = self.mk_k(id);
        let (v, vv, vg) = self.mk_v(rng);
        oplog!(ctx, "insert({},g{} -> {},g{})", id, kg, vv, vg);
        let old = self.map.insert(k, v);
        let mold = self.model.insert(id, kg, vv, vg);
        match (&old, &mold) {
            (Some(o), Some(m)) => self.chk_v(o, m, "insert (returned old value)"),
            (None, None) => {}
            (Some(o), None) => {
                o.check();
                if self.compare {
                    crate::viol!("insert({}): returned Some({:?}) for a key the model does not hold", id, o);
                }
            }
            (None, Some(_)) => {
                if self.compare {
                    crate::viol!("insert({}): returned None although the key was present", id);
                }
            }
        }
        old.map(|o| o.id() as u64 + 1).unwrap_or(0)
    }

    fn op_get(&mut self, ctx: &mut Ctx, rng: &mut Rng) -> u64 {
        let id = self.pick_id(rng);
        let by_ref = rng.chance(1, 2);
        oplog!(ctx, "get({}{})", id, if by_ref { ",KeyRef" } else { "" });
        let got = if by_ref {
            self.map.get(&KeyRef(id))
        } else {
            let (k, _) = self.mk_k(id);
            let r = self.map.get(&k);
            // second lookup through the borrowed form must agree (lawful only)
            if self.compare {
                let r2 = self.map.get(&KeyRef(id));
                if r.map(|x| x as *const V) != r2.map(|x| x as *const V) {
                    crate::viol!("get({}): lookup by key and by borrowed form found different entries", id);
                }
            }
            r
        };
        self.presence(got.is_some(), id, "get");
        if let (Some(g), Some(m)) = (got, self.model.get(id)) {
            self.chk_v(g, &m, "get");
        } else if let Some(g) = got {
            g.check();
        }
        got.map(|g| g.id() as u64 + 1).unwrap_or(0)
    }

    fn op_get_mut(&mut self, ctx: &mut Ctx, rng: &mut Rng) -> u64 {
        let id = self.pick_id(rng);
        let (nv, vv, vg) = self.mk_v(rng);
        oplog!(ctx, "get_mut({}) := {},g{}", id, vv, vg);
        let m = self.model.get(id);
        let compare = self.compare;
        let got = self.map.get_mut(&KeyRef(id));
        let present = got.is_some();
        let mut obs = 0;
        if let Some(g) = got {
            g.check();
            if let Some(m) = m {
                if compare && (g.id() != m.v || g.gen() != m.vgen) {
                    crate::viol!("get_mut({}): value {:?}, model v={} g={}", id, g, m.v, m.vgen);
                }
            }
            obs = g.id() as u64 + 1;
            *g = nv;
            if let Some(p) = self.model.pos(id) {
                self.model.e[p].v = vv;
                self.model.e[p].vgen = vg;
            }
        }
        self.presence(present, id, "get_mut");
        obs
    }

    fn op_contains(&mut self, ctx: &mut Ctx, rng: &mut Rng) -> u64 {
        let id = self.pick_id(rng);
        oplog!(ctx, "contains_key({})", id);
        let (k, _) = self.mk_k(id);
        let e0 = crate::fuse::count(crate::fuse::Class::Eq);
        let a = self.map.contains_key(&k);
        // termination as a logical-step bound: one lookup compares at most once per bucket it can reach
        let calls = crate::fuse::count(crate::fuse::Class::Eq) - e0;
        // a lookup examines every bucket at most once (each probe step covers a fresh group), so the key is compared
        // with each stored element at most once
        if self.lawful && self.compare && calls > self.map.len() as u64 {
            crate::viol!("contains_key({}): one lookup made {} equality calls although the map holds only {} elements (an element was compared more than once)", id, calls, self.map.len());
        }
        if calls > 32 {
            // (the bucket count is read from the table itself, not from the last validation)
            let buckets = self.map.verif_dump().bucket_mask as u64 + 1;
            if calls > 2 * (buckets + 16) {
                crate::viol!("contains_key({}): one lookup made {} equality calls in a table of {} buckets", id, calls, buckets);
            }
        }
        ctx.max("max_eq_calls_one_lookup", calls);
        let b = self.map.contains_key(&KeyRef(id));
        self.presence(a, id, "contains_key");
        self.presence(b, id, "contains_key(KeyRef)");
        a as u64
    }

    fn op_get_key_value(&mut self, ctx: &mut Ctx, rng: &mut Rng) -> u64 {
        let id = self.pick_id(rng);
        let m = self.model.get(id);
        if rng.chance(1, 2) {
            oplog!(ctx, "get_key_value({})", id);
            let got = self.map.get_key_value(&KeyRef(id));
            self.presence(got.is_some(), id, "get_key_value");
            if let Some((k, v)) = got {
                k.check();
                v.check();
                if let Some(m) = m {
                    self.chk_k(k, &m, "get_key_value");
                    self.chk_v(v, &m, "get_key_value");
                }
                return v.id() as u64 + 1;
            }
            0
        } else {
            let (nv, vv, vg) = self.mk_v(rng);
            oplog!(ctx, "get_key_value_mut({}) := {},g{}", id, vv, vg);
            let compare = self.compare;
            let got = self.map.get_key_value_mut(&KeyRef(id));
            let present = got.is_some();
            let mut obs = 0;
            if let Some((k, v)) = got {
                k.check();
                v.check();
                if let Some(m) = m {
                    if compare && (k.gen() != m.kgen || k.id() != m.id || v.id() != m.v || v.gen() != m.vgen) {
                        crate::viol!("get_key_value_mut({}): got ({:?},{:?}), model {:?}", id, k, v, m);
                    }
                }
                obs = v.id() as u64 + 1;
                *v = nv;
                if let Some(p) = self.model.pos(id) {
                    self.model.e[p].v = vv;
                    self.model.e[p].vgen = vg;
                }
            }
            self.presence(present, id, "get_key_value_mut");
            obs
        }
    }

    fn op_index(&mut self, ctx: &mut Ctx, rng: &mut Rng) -> u64 {
        let id = self.pick_id(rng);
        oplog!(ctx, "index({})", id);
        let map = &self.map;
        let r = catch_expected(|| {
            let v = &map[&KeyRef(id)];
            v.check();
            (v.id(), v.gen())
        });
        self.presence(r.is_ok(), id, "Index");
        match r {
            Ok((v, g)) => {
                if let Some(m) = self.model.get(id) {
                    if self.compare && (m.v != v || m.vgen != g) {
                        crate::viol!("Index({}): got v={} g={}, model {:?}", id, v, g, m);
                    }
                }
                v as u64 + 1
            }
            Err(_) => 0,
        }
    }

    fn op_remove(&mut self, ctx: &mut Ctx, rng: &mut Rng) -> u64 {
        // bias towards present keys so that tombstones appear
        let id = if rng.chance(3, 4) { self.pick_present(rng).unwrap_or_else(|| self.pick_id(rng)) } else { self.pick_id(rng) };
        let m = self.model.remove(id);
        if rng.chance(1, 2) {
            oplog!(ctx, "remove({})", id);
            let got = self.map.remove(&KeyRef(id));
            match (&got, &m) {
                (Some(g), Some(m)) => self.chk_v(g, m, "remove"),
                (Some(g), None) => {
                    g.check();
                    if self.compare {
                        crate::viol!("remove({}): returned {:?} for an absent key", id, g);
                    }
                }
                (None, Some(_)) => {
                    if self.compare {
                        crate::viol!("remove({}): returned None for a present key", id);
                    }
                }
                (None, None) => {}
            }
            got.map(|g| g.id() as u64 + 1).unwrap_or(0)
        } else {
            oplog!(ctx, "remove_entry({})", id);
            let (k, _) = self.mk_k(id);
            let got = self.map.remove_entry(&k);
            match (&got, &m) {
                (Some((gk, gv)), Some(m)) => {
                    self.chk_k(gk, m, "remove_entry");
                    self.chk_v(gv, m, "remove_entry");
                }
                (Some((gk, gv)), None) => {
                    gk.check();
                    gv.check();
                    if self.compare {
                        crate::viol!("remove_entry({}): returned an entry for an absent key", id);
                    }
                }
                (None, Some(_)) => {
                    if self.compare {
                        crate::viol!("remove_entry({}): returned None for a present key", id);
                    }
                }
                (None, None) => {}
            }
            got.map(|g| g.1.id() as u64 + 1).unwrap_or(0)
        }
    }

    fn op_try_insert(&mut self, ctx: &mut Ctx, rng: &mut Rng) -> u64 {
        let id = self.pick_id(rng);
        let (k, kg) = self.mk_k(id);
        let (v, vv, vg) = self.mk_v(rng);
        oplog!(ctx, "try_insert({},g{} -> {},g{})", id, kg, vv, vg);
        let m = self.model.get(id);
        let compare = self.compare;
        let r = self.map.try_insert(k, v);
        let ok = r.is_ok();
        let obs = match r {
            Ok(slot) => {
                slot.check();
                if compare && (slot.id() != vv || slot.gen() != vg) {
                    crate::viol!("try_insert({}): returned reference is {:?}, not the inserted value", id, slot);
                }
                1
            }
            Err(e) => {
                e.value.check();
                e.entry.key().check();
                e.entry.get().check();
                if compare {
                    if e.value.id() != vv || e.value.gen() != vg {
                        crate::viol!("try_insert({}): the error does not hand back the rejected value", id);
                    }
                    if let Some(m) = m {
                        if e.entry.get().id() != m.v || e.entry.key().gen() != m.kgen {
                            crate::viol!("try_insert({}): the error's entry is ({:?},{:?}), model {:?}", id, e.entry.key(), e.entry.get(), m);
                        }
                    }
                }
                0
            }
        };
        if ok {
            if self.model.pos(id).is_none() {
                self.model.insert(id, kg, vv, vg);
            } else if self.compare {
                crate::viol!("try_insert({}): succeeded although the key was present", id);
            }
        } else if self.compare && m.is_none() {
            crate::viol!("try_insert({}): failed although the key was absent", id);
        }
        obs
    }

    // ---- entry API -----------------------------------------------------------------

    fn op_entry(&mut self, ctx: &mut Ctx, rng: &mut Rng) -> u64 {
        let id = self.pick_id(rng);
        let (k, kg) = self.mk_k(id);
        let (v, vv, vg) = self.mk_v(rng);
        let m = self.model.get(id);
        let compare = self.compare;
        let sub = rng.below(16);
        oplog!(ctx, "entry({},g{}) sub{} val {},g{}", id, kg, sub, vv, vg);
        let keep = rng.chance(1, 2);
        // effect on the model, decided by what the real entry reports
        enum Eff {
            None,
            Set,
            SetKeyToo,
            Remove,
        }
        let mut eff = Eff::None;
        let mut occupied = false;
        let mut obs = 0u64;
        match sub {
            0..=7 => match self.map.entry(k) {
                Entry::Occupied(mut o) => {
                    occupied = true;
                    o.key().check();
                    o.get().check();
                    if let Some(m) = m {
                        if compare && (o.key().gen() != m.kgen || o.get().id() != m.v || o.get().gen() != m.vgen) {
                            crate::viol!("entry({}): occupied entry shows ({:?},{:?}), model {:?}", id, o.key(), o.get(), m);
                        }
                    }
                    match sub {
                        0 => {
                            let old = o.insert(v);
                            old.check();
                            obs = old.id() as u64 + 1;
                            eff = Eff::Set;
                        }
                        1 => {
                            let old = o.remove();
                            old.check();
                            obs = old.id() as u64 + 1;
                            eff = Eff::Remove;
                        }
                        2 => {
                            let (ok, ov) = o.remove_entry();
                            ok.check();
                            ov.check();
                            if let Some(m) = m {
                                if compare && ok.gen() != m.kgen {
                                    crate::viol!("entry({}).remove_entry: key {:?}, model {:?}", id, ok, m);
                                }
                            }
                            obs = ov.id() as u64 + 1;
                            eff = Eff::Remove;
                        }
                        3 => {
                            *o.get_mut() = v;
                            eff = Eff::Set;
                        }
                        4 => {
                            let r = o.into_mut();
                            r.check();
                            *r = v;
                            eff = Eff::Set;
                        }
                        5 => {
                            let e2 = o.replace_entry_with(|kk, old| {
                                kk.check();
                                old.check();
                                if keep {
                                    Some(v)
                                } else {
                                    None
                                }
                            });
                            match (&e2, keep) {
                                (Entry::Occupied(_), true) => eff = Eff::Set,
                                (Entry::Vacant(_), false) => eff = Eff::Remove,
                                _ => crate::viol!("entry({}).replace_entry_with: wrong variant returned (keep={})", id, keep),
                            }
                        }
                        _ => {} // dropped unused
                    }
                }
                Entry::Vacant(ve) => {
                    ve.key().check();
                    if ve.key().id() != id {
                        crate::viol!("entry({}): vacant entry holds key {:?}", id, ve.key());
                    }
                    match sub {
                        0 | 3 | 4 => {
                            let r = ve.insert(v);
                            r.check();
                            eff = Eff::SetKeyToo;
                        }
                        1 | 5 => {
                            let o = ve.insert_entry(v);
                            o.key().check();
                            o.get().check();
                            if keep {
                                eff = Eff::SetKeyToo;
                            } else {
                                let old = o.remove();
                                old.check();
                                if old.id() != vv {
                                    crate::viol!("entry({}): insert_entry().remove() returned {:?}", id, old);
                                }
                            }
                        }
                        2 => {
                            let kk = ve.into_key();
                            kk.check();
                        }
                        _ => {} // dropped unused: must leave contents and len unchanged
                    }
                }
            },
            8 => {
                let e = self.map.entry(k);
                occupied = matches!(e, Entry::Occupied(_));
                let r = e.or_insert(v);
                r.check();
                obs = r.id() as u64 + 1;
                if !occupied {
                    eff = Eff::SetKeyToo;
                }
            }
            9 => {
                let e = self.map.entry(k);
                occupied = matches!(e, Entry::Occupied(_));
                let mut called = false;
                let r = e.or_insert_with(|| {
                    called = true;
                    v
                });
                r.check();
                obs = r.id() as u64 + 1;
                if called == occupied {
                    crate::viol!("entry({}).or_insert_with: default closure called={} on occupied={}", id, called, occupied);
                }
                if !occupied {
                    eff = Eff::SetKeyToo;
                }
            }
            10 => {
                let e = self.map.entry(k);
                occupied = matches!(e, Entry::Occupied(_));
                let r = e.or_insert_with_key(|kk| {
                    kk.check();
                    v
                });
                r.check();
                obs = r.id() as u64 + 1;
                if !occupied {
                    eff = Eff::SetKeyToo;
                }
            }
            11 => {
                drop(v);
                let e = self.map.entry(k);
                occupied = matches!(e, Entry::Occupied(_));
                let r = e.or_default();
                r.check();
                obs = r.id() as u64 + 1;
                self.presence(occupied, id, "entry(or_default)");
                if !occupied {
                    // V::default() is make(0,0)
                    self.model.insert(id, kg, 0, 0);
                }
                return obs;
            }
            12 => {
                let e = self.map.entry(k);
                occupied = matches!(e, Entry::Occupied(_));
                let mut nv = Some(v);
                let e = e.and_modify(|x| {
                    x.check();
                    *x = nv.take().unwrap();
                });
                if occupied {
                    eff = Eff::Set;
                    drop(e);
                } else {
                    let r = e.or_insert(nv.take().unwrap());
                    r.check();
                    eff = Eff::SetKeyToo;
                }
            }
            13 => {
                let e = self.map.entry(k);
                occupied = matches!(e, Entry::Occupied(_));
                let mut nv = Some(v);
                let e2 = e.and_replace_entry_with(|kk, old| {
                    kk.check();
                    old.check();
                    if keep {
                        nv.take()
                    } else {
                        None
                    }
                });
                if occupied {
                    match (&e2, keep) {
                        (Entry::Occupied(_), true) => eff = Eff::Set,
                        (Entry::Vacant(_), false) => eff = Eff::Remove,
                        _ => crate::viol!("entry({}).and_replace_entry_with: wrong variant (keep={})", id, keep),
                    }
                } else if !matches!(e2, Entry::Vacant(_)) {
                    crate::viol!("entry({}).and_replace_entry_with on vacant returned Occupied", id);
                }
            }
            14 => {
                let e = self.map.entry(k);
                occupied = matches!(e, Entry::Occupied(_));
                let o = e.insert(v);
                o.key().check();
                o.get().check();
                if o.get().id() != vv {
                    crate::viol!("entry({}).insert: entry shows {:?}", id, o.get());
                }
                eff = if occupied { Eff::Set } else { Eff::SetKeyToo };
            }
            _ => {
                let e = self.map.entry(k);
                occupied = matches!(e, Entry::Occupied(_));
                e.key().check();
                if compare && e.key().id() != id {
                    crate::viol!("entry({}).key() is {:?}", id, e.key());
                }
            }
        }
        self.presence(occupied, id, "entry");
        match eff {
            Eff::None => {}
            Eff::Set => {
                if let Some(p) = self.model.pos(id) {
                    self.model.e[p].v = vv;
                    self.model.e[p].vgen = vg;
                }
            }
            Eff::SetKeyToo => {
                self.model.insert(id, kg, vv, vg);
            }
            Eff::Remove => {
                self.model.remove(id);
            }
        }
        obs + occupied as u64 * 1000
    }

    fn op_entry_ref(&mut self, ctx: &mut Ctx, rng: &mut Rng) -> u64 {
        let id = self.pick_id(rng);
        let (v, vv, vg) = self.mk_v(rng);
        let m = self.model.get(id);
        let compare = self.compare;
        let sub = rng.below(9);
        let kg = if K::HAS_GEN { INTO_GEN } else { 0 };
        oplog!(ctx, "entry_ref({}) sub{} val {},g{}", id, sub, vv, vg);
        let kr = KeyRef(id);
        let occupied;
        let mut inserted = false;
        let mut set = false;
        let mut removed = false;
        match self.map.entry_ref(&kr) {
            EntryRef::Occupied(mut o) => {
                occupied = true;
                o.key().check();
                o.get().check();
                if let Some(m) = m {
                    if compare && (o.key().gen() != m.kgen || o.get().id() != m.v) {
                        crate::viol!("entry_ref({}): occupied entry shows ({:?},{:?}), model {:?}", id, o.key(), o.get(), m);
                    }
                }
                match sub {
                    0 => {
                        o.insert(v).check();
                        set = true;
                    }
                    1 => {
                        o.remove().check();
                        removed = true;
                    }
                    2 => {
                        *o.get_mut() = v;
                        set = true;
                    }
                    _ => {}
                }
            }
            EntryRef::Vacant(ve) => {
                occupied = false;
                if ve.key().0 != id {
                    crate::viol!("entry_ref({}): vacant entry key {:?}", id, ve.key());
                }
                match sub {
                    0 | 1 => {
                        ve.insert(v).check();
                        inserted = true;
                    }
                    2 | 3 => {
                        let o = ve.insert_entry(v);
                        o.key().check();
                        if o.key().id() != id || o.get().id() != vv {
                            crate::viol!("entry_ref({}).insert_entry shows ({:?},{:?})", id, o.key(), o.get());
                        }
                        inserted = true;
                    }
                    4 => {
                        // combinators on a fresh EntryRef
                        drop(ve);
                        let r = self.map.entry_ref(&kr).or_insert(v);
                        r.check();
                        inserted = true;
                    }
                    5 => {
                        drop(ve);
                        let r = self.map.entry_ref(&kr).or_insert_with(|| v);
                        r.check();
                        inserted = true;
                    }
                    6 => {
                        drop(ve);
                        let o = self.map.entry_ref(&kr).insert(v);
                        o.get().check();
                        inserted = true;
                    }
                    _ => {} // dropped unused
                }
            }
        }
        self.presence(occupied, id, "entry_ref");
        if inserted {
            self.model.insert(id, kg, vv, vg);
        }
        if set {
            if let Some(p) = self.model.pos(id) {
                self.model.e[p].v = vv;
                self.model.e[p].vgen = vg;
            }
        }
        if removed {
            self.model.remove(id);
        }
        occupied as u64
    }

    fn op_rustc_entry(&mut self, ctx: &mut Ctx, rng: &mut Rng) -> u64 {
        let id = self.pick_id(rng);
        let (k, kg) = self.mk_k(id);
        let (v, vv, vg) = self.mk_v(rng);
        let m = self.model.get(id);
        let compare = self.compare;
        let sub = rng.below(8);
        oplog!(ctx, "rustc_entry({},g{}) sub{} val {},g{}", id, kg, sub, vv, vg);
        let occupied;
        let mut inserted = false;
        let mut set = false;
        let mut removed = false;
        match self.map.rustc_entry(k) {
            RustcEntry::Occupied(mut o) => {
                occupied = true;
                o.key().check();
                o.get().check();
                if let Some(m) = m {
                    if compare && (o.key().gen() != m.kgen || o.get().id() != m.v) {
                        crate::viol!("rustc_entry({}): occupied entry shows ({:?},{:?}), model {:?}", id, o.key(), o.get(), m);
                    }
                }
                match sub {
                    0 => {
                        o.insert(v).check();
                        set = true;
                    }
                    1 => {
                        o.remove().check();
                        removed = true;
                    }
                    2 => {
                        let (a, b) = o.remove_entry();
                        a.check();
                        b.check();
                        removed = true;
                    }
                    3 => {
                        *o.into_mut() = v;
                        set = true;
                    }
                    _ => {}
                }
            }
            RustcEntry::Vacant(ve) => {
                occupied = false;
                ve.key().check();
                match sub {
                    0 | 1 | 2 => {
                        ve.insert(v).check();
                        inserted = true;
                    }
                    3 | 4 => {
                        let o = ve.insert_entry(v);
                        o.get().check();
                        inserted = true;
                    }
                    5 => {
                        ve.into_key().check();
                    }
                    _ => {}
                }
            }
        }
        self.presence(occupied, id, "rustc_entry");
        if inserted {
            self.model.insert(id, kg, vv, vg);
        }
        if set {
            if let Some(p) = self.model.pos(id) {
                self.model.e[p].v = vv;
                self.model.e[p].vgen = vg;
            }
        }
        if removed {
            self.model.remove(id);
        }
        occupied as u64
    }

    fn op_raw_entry_mut(&mut self, ctx: &mut Ctx, rng: &mut Rng) -> u64 {
        let id = self.pick_id(rng);
        let (k, kg) = self.mk_k(id);
        let (v, vv, vg) = self.mk_v(rng);
        let m = self.model.get(id);
        let compare = self.compare;
        let how = rng.below(3);
        let sub = rng.below(9);
        let keep = rng.chance(1, 2);
        let h = self.bh.hash_of(id);
        let bh = self.bh;
        oplog!(ctx, "raw_entry_mut how{} ({},g{}) sub{} val {},g{}", how, id, kg, sub, vv, vg);
        // a vacant raw entry may be filled with ANY key: the stored key is hashed on its own, the probed one is forgotten
        let other: Option<u32> = if ((sub >= 7 && m.is_none()) || (sub == 4 && m.is_some() && !keep)) && self.lawful {
            let u = self.universe.max(1);
            let start = rng.below(u as u64) as u32;
            (0..u.min(64)).map(|d| (start + d) % u).find(|x| *x != id && self.model.get(*x).is_none())
        } else {
            None
        };
        let mut other_key = other.map(|o| self.mk_k(o));
        let mut other_key_for_vacated = if sub == 4 { other_key.take() } else { None };
        let other_kg = other_key.as_ref().or(other_key_for_vacated.as_ref()).map(|x| x.1).unwrap_or(0);
        let b = self.map.raw_entry_mut();
        let e = match how {
            0 => b.from_key(&KeyRef(id)),
            1 => b.from_key_hashed_nocheck(h, &KeyRef(id)),
            _ => b.from_hash(h, |kk| {
                kk.check();
                kk.id() == id
            }),
        };
        let occupied;
        let mut inserted = false;
        let mut set = false;
        let mut removed = false;
        let mut newkey = false;
        let mut inserted_other = false;
        match e {
            RawEntryMut::Occupied(mut o) => {
                occupied = true;
                o.key().check();
                o.get().check();
                if let Some(m) = m {
                    if compare && (o.key().gen() != m.kgen || o.get().id() != m.v || o.get().gen() != m.vgen) {
                        crate::viol!("raw_entry_mut({}): occupied entry shows ({:?},{:?}), model {:?}", id, o.key(), o.get(), m);
                    }
                }
                match sub {
                    0 => {
                        o.insert(v).check();
                        set = true;
                    }
                    1 => {
                        o.remove().check();
                        removed = true;
                    }
                    2 => {
                        let (a, b) = o.remove_entry();
                        a.check();
                        b.check();
                        removed = true;
                    }
                    3 => {
                        o.insert_key(k).check();
                        newkey = true;
                    }
                    4 => {
                        let e2 = o.replace_entry_with(|kk, old| {
                            kk.check();
                            old.check();
                            if keep {
                                Some(v)
                            } else {
                                None
                            }
                        });
                        match (&e2, keep) {
                            (RawEntryMut::Occupied(_), true) => set = true,
                            (RawEntryMut::Vacant(_), false) => removed = true,
                            _ => crate::viol!("raw replace_entry_with: wrong variant (keep={})", keep),
                        }
                        // the vacant entry left behind by a removal may be filled with any key, too
                        if let (RawEntryMut::Vacant(ve), Some((k2, _))) = (e2, other_key_for_vacated.take()) {
                            let id2 = other.unwrap();
                            let v2 = V::make(vv, vg);
                            let (a, b) = ve.insert(k2, v2);
                            a.check();
                            b.check();
                            crate::check!(a.id() == id2, "raw vacant entry (left by replace_entry_with) filled with key {}: the returned key reference shows {}", id2, a.id());
                            inserted_other = true;
                        }
                    }
                    5 => {
                        let (kk, x) = o.get_key_value_mut();
                        kk.check();
                        *x = v;
                        set = true;
                    }
                    6 => {
                        let (kk, x) = o.into_key_value();
                        kk.check();
                        *x = v;
                        set = true;
                    }
                    _ => {}
                }
            }
            RawEntryMut::Vacant(ve) => {
                occupied = false;
                match sub {
                    0 | 1 | 2 => {
                        let (a, b) = ve.insert(k, v);
                        a.check();
                        b.check();
                        inserted = true;
                    }
                    3 | 4 => {
                        let (a, b) = ve.insert_hashed_nocheck(h, k, v);
                        a.check();
                        b.check();
                        inserted = true;
                    }
                    5 | 6 => {
                        let (a, b) = ve.insert_with_hasher(h, k, v, |kk| {
                            kk.check();
                            bh.hash_of(kk.id())
                        });
                        a.check();
                        b.check();
                        inserted = true;
                    }
                    7 | 8 if other_key.is_some() => {
                        let (k2, _) = other_key.unwrap();
                        let id2 = other.unwrap();
                        let (a, b) = if sub == 7 {
                            ve.insert(k2, v)
                        } else {
                            let e2 = RawEntryMut::Vacant(ve);
                            e2.or_insert(k2, v)
                        };
                        a.check();
                        b.check();
                        crate::check!(a.id() == id2, "raw vacant insert of key {} (probed {}): the returned key reference shows {}", id2, id, a.id());
                        inserted_other = true;
                    }
                    _ => {} // dropped unused
                }
            }
        }
        self.presence(occupied, id, "raw_entry_mut");
        if inserted {
            self.model.insert(id, kg, vv, vg);
        }
        if inserted_other {
            let id2 = other.unwrap();
            let kg2 = other_kg;
            self.model.insert(id2, kg2, vv, vg);
            // the key that was stored must be findable under its own hash, and the probed one must still be absent
            let got = self.map.get(&KeyRef(id2)).map(|x| (x.id(), x.gen()));
            crate::check!(!compare || got == Some((vv, vg)), "raw_entry_mut probed with {} and filled with key {}: get({}) = {:?}", id, id2, id2, got);
            crate::check!(!compare || !self.map.contains_key(&KeyRef(id)), "raw_entry_mut probed with {} and filled with key {}: the probed key is now present", id, id2);
        }
        if set {
            if let Some(p) = self.model.pos(id) {
                self.model.e[p].v = vv;
                self.model.e[p].vgen = vg;
            }
        }
        if newkey {
            if let Some(p) = self.model.pos(id) {
                self.model.e[p].kgen = kg;
            }
        }
        if removed {
            self.model.remove(id);
        }
        occupied as u64
    }

    fn op_raw_entry(&mut self, ctx: &mut Ctx, rng: &mut Rng) -> u64 {
        let id = self.pick_id(rng);
        let how = rng.below(3);
        let h = self.bh.hash_of(id);
        oplog!(ctx, "raw_entry how{} ({})", how, id);
        let b = self.map.raw_entry();
        let got = match how {
            0 => b.from_key(&KeyRef(id)),
            1 => b.from_key_hashed_nocheck(h, &KeyRef(id)),
            _ => b.from_hash(h, |kk| kk.id() == id),
        };
        self.presence(got.is_some(), id, "raw_entry");
        if let Some((k, v)) = got {
            k.check();
            v.check();
            if let Some(m) = self.model.get(id) {
                self.chk_k(k, &m, "raw_entry");
                self.chk_v(v, &m, "raw_entry");
            }
            return v.id() as u64 + 1;
        }
        0
    }

    /// Entry combinators that the match-style operations above do not reach, `Debug` formatting of the map,
    /// its iterators and its entries (these clone and walk the raw iterators), and `&mut` iteration.
    fn op_combinators_fmt(&mut self, ctx: &mut Ctx, rng: &mut Rng) -> u64 {
        let id = self.pick_id(rng);
        let (k, kg) = self.mk_k(id);
        let (v, vv, vg) = self.mk_v(rng);
        let present = self.model.pos(id).is_some();
        let sub = rng.below(22);
        oplog!(ctx, "combinators_fmt sub{} key {},g{} val {},g{}", sub, id, kg, vv, vg);
        let kr = KeyRef(id);
        let ig = if K::HAS_GEN { INTO_GEN } else { 0 };
        // what the model must do afterwards: 0 nothing, 1 set value if present, 2 insert (key gen kg) if absent,
        // 3 insert-or-set with key gen kg when absent, 4 insert default if absent, 5 remove, 6 insert (key from Into) if absent,
        // 7 insert-or-set with Into key when absent
        let mut eff = 0u8;
        let mut fmt_len = 0usize;
        match sub {
            0 => {
                let o = self.map.rustc_entry(k).insert(v);
                o.get().check();
                eff = 3;
            }
            1 => {
                self.map.rustc_entry(k).or_insert_with(|| v).check();
                eff = 2;
            }
            2 => {
                let e = self.map.rustc_entry(k);
                e.key().check();
                let mut nv = Some(v);
                let e = e.and_modify(|x| *x = nv.take().unwrap());
                drop(e);
                eff = 1;
            }
            3 => {
                drop(v);
                self.map.rustc_entry(k).or_default().check();
                eff = 4;
            }
            4 => {
                if rng.chance(1, 2) {
                    drop(v);
                    drop(k);
                    self.map.entry_ref(&kr).or_default().check();
                    eff = 40;
                } else {
                    // Q = K: or_insert_with_key needs K: Borrow<Q> and &Q: Into<K>
                    let r = self.map.entry_ref(&k).or_insert_with_key(|q| {
                        q.check();
                        v
                    });
                    r.check();
                    drop(k);
                    eff = 60;
                }
            }
            5 => {
                // Q = K here: EntryRef::key needs K: Borrow<Q>
                let e = self.map.entry_ref(&k);
                e.key().check();
                let mut nv = Some(v);
                let e = e.and_modify(|x| *x = nv.take().unwrap());
                drop(e);
                eff = 1;
            }
            6 => {
                let o = self.map.raw_entry_mut().from_key(&kr).insert(k, v);
                o.get().check();
                eff = 3;
            }
            7 => {
                let (a, b) = self.map.raw_entry_mut().from_key(&kr).or_insert(k, v);
                a.check();
                b.check();
                eff = 2;
            }
            8 => {
                let (a, b) = self.map.raw_entry_mut().from_key(&kr).or_insert_with(|| (k, v));
                a.check();
                b.check();
                eff = 2;
            }
            9 => {
                drop(k);
                let mut nv = Some(v);
                let e = self.map.raw_entry_mut().from_key(&kr).and_modify(|kk, x| {
                    kk.check();
                    *x = nv.take().unwrap();
                });
                drop(e);
                eff = 1;
            }
            10 => {
                drop(k);
                let keep = rng.chance(1, 2);
                let mut nv = Some(v);
                let _ = self.map.raw_entry_mut().from_key(&kr).and_replace_entry_with(|kk, old| {
                    kk.check();
                    old.check();
                    if keep {
                        nv.take()
                    } else {
                        None
                    }
                });
                eff = if keep { 1 } else { 5 };
            }
            11 => {
                drop(k);
                drop(v);
                if let RawEntryMut::Occupied(o) = self.map.raw_entry_mut().from_key(&kr) {
                    let (a, b) = o.get_key_value();
                    a.check();
                    b.check();
                    if rng.chance(1, 2) {
                        o.into_key().check();
                    } else {
                        o.into_mut().check();
                    }
                }
            }
            12 => {
                drop(k);
                drop(v);
                // &mut iteration and the iter() views of the mutable/owning iterators
                let mut n = 0;
                for (a, b) in &mut self.map {
                    a.check();
                    b.check();
                    n += 1;
                }
                crate::check!(n == self.map.len(), "for (k, v) in &mut map yields {} of {}", n, self.map.len());
                let it = self.map.iter_mut();
                let seen = it.rustc_iter().count();
                crate::check!(seen == n, "IterMut::rustc_iter() yields {} of {}", seen, n);
                let c2 = self.map.clone();
                let into = c2.into_iter();
                crate::check!(into.rustc_iter().count() == n, "IntoIter::rustc_iter() count differs");
                drop(into);
            }
            13..=21 => {
                drop(k);
                drop(v);
                let len = self.map.len();
                let s = match sub {
                    13 => format!("{:?}", self.map),
                    14 => format!("{:?} {:?} {:?}", self.map.iter(), self.map.keys(), self.map.values()),
                    15 => {
                        let a = format!("{:?}", self.map.iter_mut());
                        a + &format!("{:?}", self.map.values_mut())
                    }
                    16 => {
                        let c2 = self.map.clone();
                        let mut it = c2.into_iter();
                        it.next();
                        let a = format!("{:?}", it);
                        let c3 = self.map.clone();
                        let b = format!("{:?} {:?}", c3.clone().into_keys(), c3.into_values());
                        a + &b
                    }
                    17 => {
                        // Debug of a Drain over a clone (the original keeps its contents)
                        let mut c2 = self.map.clone();
                        let mut d = c2.drain();
                        d.next();
                        let a = format!("{:?}", d);
                        crate::check!(d.rustc_iter().count() == len.saturating_sub(1), "Drain::rustc_iter() count differs");
                        drop(d);
                        a
                    }
                    18 => {
                        let kk = K::make(id, 0);
                        format!("{:?}", self.map.entry(kk))
                    }
                    19 => {
                        let kk = K::make(id, 0);
                        let a = format!("{:?}", self.map.entry_ref(&kk));
                        a + &format!("{:?}", self.map.raw_entry().from_key(&kr).is_some())
                    }
                    20 => {
                        let a = format!("{:?}", self.map.raw_entry_mut().from_key(&kr));
                        let b = format!("{:?}", self.map.raw_entry_mut()) + &format!("{:?}", self.map.raw_entry());
                        a + &b
                    }
                    _ => {
                        let kk = K::make(id, 0);
                        let a = format!("{:?}", self.map.rustc_entry(kk));
                        let b = match self.map.try_insert(K::make(id, 0), V::make(0, 0)) {
                            Err(e) => format!("{:?} / {}", e, e),
                            Ok(_) => {
                                // the probe key was absent and is now in the map: undo, the model is not touched
                                self.map.remove(&kr);
                                String::from("inserted")
                            }
                        };
                        a + &b
                    }
                };
                fmt_len = s.len();
                if sub == 13 {
                    // a map formats as { k: v, ... }: one ": " per entry (element Debug output contains no ": ")
                    crate::check!(s.matches(": ").count() == len, "Debug of the map shows {} entries, len() is {}", s.matches(": ").count(), len);
                }
                crate::check!(!s.is_empty(), "empty Debug output");
            }
            _ => {}
        }
        match eff {
            1 => {
                if let Some(p) = self.model.pos(id) {
                    self.model.e[p].v = vv;
                    self.model.e[p].vgen = vg;
                }
            }
            2 => {
                if !present {
                    self.model.insert(id, kg, vv, vg);
                }
            }
            3 => {
                self.model.insert(id, kg, vv, vg);
            }
            4 => {
                if !present {
                    self.model.insert(id, kg, 0, 0);
                }
            }
            40 => {
                if !present {
                    self.model.insert(id, ig, 0, 0);
                }
            }
            60 => {
                if !present {
                    self.model.insert(id, ig, vv, vg);
                }
            }
            5 => {
                self.model.remove(id);
            }
            _ => {}
        }
        sub * 100 + (fmt_len > 0) as u64
    }

    // ---- bulk operations ---------------------------------------------------------------

    fn op_extend(&mut self, ctx: &mut Ctx, rng: &mut Rng) -> u64 {
        let n = rng.below(12) as usize;
        let mut items = Vec::with_capacity(n);
        let mut desc = Vec::new();
        for _ in 0..n {
            let id = self.pick_id(rng);
            let (k, kg) = self.mk_k(id);
            let (v, vv, vg) = self.mk_v(rng);
            desc.push((id, kg, vv, vg));
            items.push((k, v));
        }
        oplog!(ctx, "extend({:?})", desc.iter().map(|d| d.0).collect::<Vec<_>>());
        // an iterator whose size_hint lower bound is honest but smaller than its length half of the time
        if rng.chance(1, 2) {
            self.map.extend(items);
        } else {
            self.map.extend(items.into_iter().filter(|_| true));
        }
        for (id, kg, vv, vg) in desc {
            self.model.insert(id, kg, vv, vg);
        }
        n as u64
    }

    fn op_from_iter(&mut self, ctx: &mut Ctx, rng: &mut Rng) -> u64 {
        let n = rng.below(20) as usize;
        let mut items = Vec::with_capacity(n);
        let mut model = Model::default();
        for _ in 0..n {
            let id = self.pick_id(rng);
            let (k, kg) = self.mk_k(id);
            let (v, vv, vg) = self.mk_v(rng);
            model.insert(id, kg, vv, vg);
            items.push((k, v));
        }
        oplog!(ctx, "from_iter(n={})", n);
        let new: Map<K, V> = items.into_iter().collect();
        self.map = new;
        self.model = model;
        n as u64
    }

    fn op_reserve_shrink(&mut self, ctx: &mut Ctx, rng: &mut Rng) -> u64 {
        let sub = rng.below(4);
        let n = match rng.below(3) {
            0 => rng.below(8) as usize,
            1 => rng.below(64) as usize,
            // (capacity-relative requests would make the transcript depend on the group width)
            _ if self.order_free => (self.map.len() + rng.below(4) as usize).saturating_sub(2),
            _ => (self.map.capacity() + rng.below(4) as usize).saturating_sub(2),
        };
        let len_before = self.map.len();
        match sub {
            0 => {
                oplog!(ctx, "reserve({})", n);
                self.map.reserve(n);
                crate::check!(self.map.capacity() >= len_before + n, "reserve({}): capacity {} < len {} + {}", n, self.map.capacity(), len_before, n);
            }
            1 => {
                oplog!(ctx, "shrink_to({})", n);
                self.map.shrink_to(n);
            }
            2 => {
                oplog!(ctx, "shrink_to_fit");
                self.map.shrink_to_fit();
            }
            _ => {
                oplog!(ctx, "try_reserve({})", n);
                let r = self.map.try_reserve(n);
                crate::check!(r.is_ok(), "try_reserve({}) failed without any refusal: {:?}", n, r);
                crate::check!(self.map.capacity() >= len_before + n, "try_reserve({}): capacity {} < len {} + {}", n, self.map.capacity(), len_before, n);
            }
        }
        crate::check!(self.map.len() == len_before, "reserve/shrink changed len from {} to {}", len_before, self.map.len());
        sub
    }

    fn op_retain(&mut self, ctx: &mut Ctx, rng: &mut Rng) -> u64 {
        let salt = rng.next();
        oplog!(ctx, "retain(salt {:#x})", salt);
        let len = self.map.len();
        let mut calls = 0usize;
        self.map.retain(|k, v| {
            calls += 1;
            k.check();
            v.check();
            pred_id(salt, k.id())
        });
        crate::check!(calls == len, "retain: predicate called {} times for {} elements", calls, len);
        self.model.e.retain(|e| pred_id(salt, e.id));
        self.model.len() as u64
    }

    fn op_drain(&mut self, ctx: &mut Ctx, rng: &mut Rng) -> u64 {
        let len = self.map.len();
        let take = if self.order_free || rng.chance(1, 2) { len } else { rng.usize_below(len + 1) };
        oplog!(ctx, "drain(take {} of {})", take, len);
        let mut seen = Vec::new();
        {
            let mut d = self.map.drain();
            crate::check!(d.len() == len, "drain: len() {} for {} elements", d.len(), len);
            for _ in 0..take {
                match d.next() {
                    Some((k, v)) => {
                        k.check();
                        v.check();
                        seen.push((k.id(), k.gen(), v.id(), v.gen()));
                    }
                    None => {
                        crate::viol!("drain: ended after {} of {} elements", seen.len(), len);
                        break;
                    }
                }
            }
            if take == len {
                crate::check!(d.next().is_none(), "drain: yields more than len() elements");
            }
        }
        if self.compare {
            for s in &seen {
                match self.model.get(s.0) {
                    Some(m) if m.kgen == s.1 && m.v == s.2 && m.vgen == s.3 => {}
                    other => crate::viol!("drain: yielded {:?}, model has {:?}", s, other),
                }
            }
            let mut ids: Vec<u32> = seen.iter().map(|s| s.0).collect();
            ids.sort();
            ids.dedup();
            crate::check!(ids.len() == seen.len(), "drain: yielded a key twice");
        }
        self.model.e.clear();
        crate::check!(self.map.is_empty(), "drain: map not empty after the drain was dropped (len {})", self.map.len());
        len as u64
    }

    fn op_extract_if(&mut self, ctx: &mut Ctx, rng: &mut Rng) -> u64 {
        let salt = rng.next();
        let full = self.order_free || rng.chance(1, 2);
        let limit = if full { usize::MAX } else { rng.usize_below(self.map.len() + 1) };
        oplog!(ctx, "extract_if(salt {:#x}, limit {})", salt, limit as i64);
        let mut got = Vec::new();
        {
            let len0 = self.map.len();
            let mut it = self.map.extract_if(|k, v| {
                k.check();
                v.check();
                !pred_id(salt, k.id())
            });
            let (lo, hi) = it.size_hint();
            crate::check!(lo == 0 && hi.map_or(true, |h| h >= len0), "ExtractIf::size_hint() = ({}, {:?}) for {} elements", lo, hi, len0);
            while got.len() < limit {
                match it.next() {
                    Some((k, v)) => {
                        k.check();
                        v.check();
                        got.push((k.id(), k.gen(), v.id(), v.gen()));
                    }
                    None => break,
                }
            }
        }
        for g in &got {
            crate::check!(!pred_id(salt, g.0), "extract_if: yielded key {} for which the predicate is false", g.0);
            let m = self.model.remove(g.0);
            if self.compare {
                match m {
                    Some(m) if m.kgen == g.1 && m.v == g.2 && m.vgen == g.3 => {}
                    other => crate::viol!("extract_if: yielded {:?}, model had {:?}", g, other),
                }
            }
        }
        if full && self.compare {
            crate::check!(
                self.model.e.iter().all(|e| pred_id(salt, e.id)),
                "extract_if: exhausted but an element with a true predicate is still in the model"
            );
        }
        got.len() as u64
    }

    fn op_clone(&mut self, ctx: &mut Ctx, rng: &mut Rng) -> u64 {
        let sub = rng.below(3);
        match sub {
            0 => {
                oplog!(ctx, "clone (swap in)");
                let c = self.map.clone();
                if self.compare {
                    crate::check!(c == self.map, "clone() != source");
                }
                self.map = c;
            }
            1 => {
                // clone_from into a target in a random state
                let cap = rng.below(40) as usize;
                let junk = rng.below(12) as u32;
                oplog!(ctx, "clone_from into target(cap {}, {} junk entries)", cap, junk);
                let mut t: Map<K, V> = Map::with_capacity_and_hasher_in(cap, self.bh, CkAlloc);
                for j in 0..junk {
                    let (k, _) = self.mk_k(j % self.universe);
                    let (v, _, _) = self.mk_v(rng);
                    t.insert(k, v);
                }
                for j in 0..junk / 2 {
                    t.remove(&KeyRef(j % self.universe));
                }
                t.clone_from(&self.map);
                if self.compare {
                    crate::check!(t == self.map, "clone_from result != source");
                }
                self.map = t;
            }
            _ => {
                oplog!(ctx, "clone (drop the clone)");
                let c = self.map.clone();
                crate::check!(c.len() == self.map.len(), "clone len {} != {}", c.len(), self.map.len());
                drop(c);
            }
        }
        sub
    }

    fn op_iterate(&mut self, ctx: &mut Ctx, rng: &mut Rng) -> u64 {
        let sub = rng.below(7);
        oplog!(ctx, "iterate sub{}", sub);
        let len = self.map.len();
        let mut n = 0usize;
        let mut acc = 0u64;
        match sub {
            0 => {
                for (k, v) in self.map.iter() {
                    k.check();
                    v.check();
                    acc ^= splitmix64(k.id() as u64) ^ v.id() as u64;
                    n += 1;
                }
            }
            1 => {
                for k in self.map.keys() {
                    k.check();
                    acc ^= splitmix64(k.id() as u64);
                    n += 1;
                }
            }
            2 => {
                for v in self.map.values() {
                    v.check();
                    n += 1;
                }
            }
            3 => {
                // values_mut: rewrite every value
                let mut newvals = Vec::new();
                for _ in 0..len {
                    newvals.push(self.mk_v(rng));
                }
                let mut written = Vec::new();
                let order_free = self.order_free;
                for (k, v) in self.map.iter_mut() {
                    k.check();
                    v.check();
                    if order_free {
                        // the new value is a function of the key, not of the iteration order
                        let vv = (k.id().wrapping_mul(31) ^ 0x5a5a) % V::ID_SPACE.min(1 << 20);
                        let vg = if V::HAS_GEN { 4242 } else { 0 };
                        *v = V::make(vv, vg);
                        written.push((k.id(), vv, vg));
                    } else if let Some((nv, vv, vg)) = newvals.pop() {
                        *v = nv;
                        written.push((k.id(), vv, vg));
                    }
                    n += 1;
                }
                for (id, vv, vg) in written {
                    if let Some(p) = self.model.pos(id) {
                        self.model.e[p].v = vv;
                        self.model.e[p].vgen = vg;
                    }
                }
            }
            4 => {
                for v in self.map.values_mut() {
                    v.check();
                    n += 1;
                }
            }
            5 => {
                // the provided Iterator methods (nth, skip, step_by, count, last), held to their definitions over next()
                let k = rng.usize_below(len + 2);
                let st = 1 + rng.usize_below(4);
                let hit = self.map.iter().nth(k).map(|(k, v)| {
                    k.check();
                    v.check();
                    k.id()
                });
                crate::check!(hit.is_some() == (k < len), "iter().nth({}) is_some = {} with len() {}", k, hit.is_some(), len);
                if let Some(id) = hit {
                    crate::check!(!self.compare || self.model.pos(id).is_some(), "iter().nth({}) yielded key {} which the model does not hold", k, id);
                }
                let a = self.map.keys().skip(k).count();
                crate::check!(a == len.saturating_sub(k), "keys().skip({}).count() = {} with len() {}", k, a, len);
                let b = self.map.values().step_by(st).count();
                crate::check!(b == (len + st - 1) / st, "values().step_by({}).count() = {} with len() {}", st, b, len);
                let m1 = self.map.iter_mut().nth(k).is_some();
                let m2 = self.map.values_mut().nth(k).is_some();
                crate::check!(m1 == (k < len) && m2 == (k < len), "iter_mut()/values_mut().nth({}) is_some = {}/{} with len() {}", k, m1, m2, len);
                let l = self.map.keys().last().is_some();
                crate::check!(l == (len > 0), "keys().last() is_some = {} with len() {}", l, len);
                let mut it = self.map.iter();
                let mut seen = 0usize;
                while it.nth(st - 1).is_some() {
                    seen += 1;
                }
                crate::check!(seen == len / st && it.len() == 0, "repeated iter().nth({}) yielded {} elements with len() {}", st - 1, seen, len);
                acc = hit.is_some() as u64 ^ ((a as u64) << 8) ^ ((b as u64) << 24) ^ ((seen as u64) << 40);
                n = len;
            }
            _ => {
                for (k, v) in &self.map {
                    k.check();
                    v.check();
                    n += 1;
                }
            }
        }
        crate::check!(n == len, "iteration sub{} yielded {} elements, len() is {}", sub, n, len);
        acc
    }

    fn op_get_many_mut(&mut self, ctx: &mut Ctx, rng: &mut Rng) -> u64 {
        if !self.lawful {
            // broken Hash/Eq: results are unspecified, but the returned references must never alias
            let a = self.pick_id(rng);
            let b = self.pick_id(rng);
            oplog!(ctx, "get_many_mut([{}, {}, {}]) under broken Hash/Eq", a, b, a);
            let map = &mut self.map;
            let r = catch_expected(|| {
                let res = map.get_many_mut([&KeyRef(a), &KeyRef(b), &KeyRef(a)]);
                let mut addrs = Vec::new();
                for v in res.into_iter().flatten() {
                    v.check();
                    addrs.push(v as *mut V as usize);
                }
                addrs
            });
            if let Ok(addrs) = r {
                if std::mem::size_of::<V>() != 0 {
                    let mut s = addrs.clone();
                    s.sort();
                    s.dedup();
                    crate::check!(s.len() == addrs.len(), "get_many_mut handed out two mutable references to the same value ({:x?}) under inconsistent Hash/Eq", addrs);
                }
                return 1;
            }
            return 0;
        }
        // distinct ids only here (duplicates and unlawful closures are C15's business)
        let a = self.pick_id(rng);
        let mut b = self.pick_id(rng);
        if b == a {
            b = (a + 1) % self.universe;
        }
        if a == b {
            return 0;
        }
        let (nv, vv, vg) = self.mk_v(rng);
        oplog!(ctx, "get_many_mut([{}, {}]) write first", a, b);
        let ma = self.model.get(a);
        let mb = self.model.get(b);
        let compare = self.compare;
        let [ra, rb] = self.map.get_many_mut([&KeyRef(a), &KeyRef(b)]);
        if compare {
            crate::check!(ra.is_some() == ma.is_some(), "get_many_mut: key {} presence wrong", a);
            crate::check!(rb.is_some() == mb.is_some(), "get_many_mut: key {} presence wrong", b);
        }
        if let Some(x) = rb {
            x.check();
            if let Some(m) = mb {
                if compare && x.id() != m.v {
                    crate::viol!("get_many_mut: second result is {:?}, model {:?}", x, m);
                }
            }
        }
        if let Some(x) = ra {
            x.check();
            *x = nv;
            if let Some(p) = self.model.pos(a) {
                self.model.e[p].v = vv;
                self.model.e[p].vgen = vg;
            }
        }
        1
    }

    // ---- leaks (C02): forget an iterator/drain/entry part-way, then keep using the map ---

    fn op_leak(&mut self, ctx: &mut Ctx, rng: &mut Rng) -> u64 {
        let sub = rng.below(8);
        let len = self.map.len();
        let k_steps = rng.usize_below(len + 1);
        oplog!(ctx, "leak sub{} after {} steps (len {})", sub, k_steps, len);
        match sub {
            0 => {
                // Drain forgotten: the map must be a valid, possibly emptied map afterwards. Whatever it still holds must be
                // live elements the drain had NOT handed out (those were moved to the caller); the model follows the map.
                let mut d = self.map.drain();
                let mut yielded: Vec<u32> = Vec::new();
                for _ in 0..k_steps {
                    if let Some((k, v)) = d.next() {
                        k.check();
                        v.check();
                        yielded.push(k.id());
                    }
                }
                ctx.leak_ok = true; // the table's block and the elements not yet yielded may never be released
                std::mem::forget(d);
                let mut kept: Vec<u32> = Vec::new();
                for (k, v) in self.map.iter() {
                    k.check();
                    v.check();
                    kept.push(k.id());
                }
                crate::check!(kept.len() == self.map.len(), "after a leaked Drain len() is {} but iter() yields {}", self.map.len(), kept.len());
                if self.compare {
                    for id in &kept {
                        crate::check!(!yielded.contains(id), "after a leaked Drain the map still holds key {}, which the drain had already handed out", id);
                        crate::check!(self.model.pos(*id).is_some(), "after a leaked Drain the map holds key {}, which it did not hold before", id);
                    }
                }
                self.model.e.retain(|e| kept.contains(&e.id));
            }
            1 => {
                let salt = rng.next();
                let mut it = self.map.extract_if(|k, _| !pred_id(salt, k.id()));
                let mut got = Vec::new();
                for _ in 0..k_steps {
                    match it.next() {
                        Some((k, v)) => {
                            k.check();
                            v.check();
                            got.push(k.id());
                        }
                        None => break,
                    }
                }
                std::mem::forget(it);
                for id in got {
                    self.model.remove(id);
                }
            }
            2 => {
                let mut it = self.map.iter();
                for _ in 0..k_steps {
                    it.next();
                }
                std::mem::forget(it);
            }
            3 => {
                let mut it = self.map.iter_mut();
                for _ in 0..k_steps {
                    it.next();
                }
                std::mem::forget(it);
            }
            4 => {
                // IntoIter forgotten: everything not yet yielded leaks, with the block
                let old = std::mem::replace(&mut self.map, Map::with_hasher_in(self.bh, CkAlloc));
                let mut it = old.into_iter();
                for _ in 0..k_steps {
                    if let Some((k, v)) = it.next() {
                        k.check();
                        v.check();
                    }
                }
                std::mem::forget(it);
                ctx.leak_ok = true;
                self.model.e.clear();
            }
            5 => {
                let id = self.pick_id(rng);
                let (k, _) = self.mk_k(id);
                let e = self.map.entry(k);
                if matches!(e, Entry::Vacant(_)) && K::TRACKED {
                    ctx.leak_ok = true; // the key inside the vacant entry leaks
                }
                std::mem::forget(e);
            }
            6 => {
                let id = self.pick_id(rng);
                let e = self.map.raw_entry_mut().from_key(&KeyRef(id));
                std::mem::forget(e);
            }
            _ => {
                let id = self.pick_id(rng);
                let kr = KeyRef(id);
                let e = self.map.entry_ref(&kr);
                std::mem::forget(e);
            }
        }
        sub
    }

    // ---- validation -------------------------------------------------------------------------

    pub fn validate(&mut self, ctx: &mut Ctx, opname: &str) {
        let d = self.map.verif_dump();
        let prev = self.facts;
        let mut f = validate::check_safety(&d, opname);
        if self.lawful {
            let map = &self.map;
            let bh = self.bh;
            validate::check_findable(
                &d,
                &mut f,
                &mut |i| {
                    map.verif_bucket(i).map(|(k, v)| {
                        k.check();
                        v.check();
                        bh.hash_of(k.id())
                    })
                },
                opname,
            );
        }
        // API-level agreement that holds for every hasher
        let len = self.map.len();
        crate::check!(len == d.items, "{}: len() {} != items {}", opname, len, d.items);
        crate::check!(self.map.is_empty() == (len == 0), "{}: is_empty() disagrees with len() {}", opname, len);
        crate::check!(self.map.capacity() >= len, "{}: capacity() {} < len() {}", opname, self.map.capacity(), len);
        let mut n = 0usize;
        let mut contents: Vec<ME> = Vec::with_capacity(len);
        for (k, v) in self.map.iter() {
            k.check();
            v.check();
            n += 1;
            if self.compare && !self.skip_contents {
                contents.push(ME { id: k.id(), kgen: k.gen(), v: v.id(), vgen: v.gen() });
            }
        }
        crate::check!(n == len, "{}: iter() yields {} elements but len() is {}", opname, n, len);
        if self.compare && !self.skip_contents {
            contents.sort();
            let mut want = self.model.e.clone();
            want.sort();
            if contents != want {
                let extra: Vec<_> = contents.iter().filter(|c| !want.contains(c)).take(4).collect();
                let missing: Vec<_> = want.iter().filter(|c| !contents.contains(c)).take(4).collect();
                crate::viol!(
                    "{}: contents differ from the model: map has {} entries, model {}; in map only {:?}; in model only {:?}",
                    opname, contents.len(), want.len(), extra, missing
                );
            }
            // every universe key: get agrees with the model
            for id in 0..self.universe.min(96) {
                let got = self.map.get(&KeyRef(id));
                match (got, self.model.get(id)) {
                    (Some(g), Some(m)) => {
                        if g.id() != m.v || g.gen() != m.vgen {
                            crate::viol!("{}: post-step get({}) = {:?}, model {:?}", opname, id, g, m);
                        }
                    }
                    (None, None) => {}
                    (g, m) => crate::viol!("{}: post-step get({}) = {:?}, model {:?}", opname, id, g.map(|x| x.id()), m),
                }
            }
        }
        // coverage facts (M8)
        let c = ckalloc::counters();
        let alloc_delta = c.allocs - self.allocs_seen;
        self.allocs_seen = c.allocs;
        if prev.buckets != 0 && f.buckets != prev.buckets && alloc_delta > 0 {
            ctx.bump(if f.buckets > prev.buckets { "resize_grow" } else { "resize_shrink" });
        }
        if prev.deleted > 0 && f.deleted == 0 && f.buckets == prev.buckets && alloc_delta == 0 && f.full > prev.full {
            ctx.bump("rehash_in_place");
        }
        if f.deleted > 0 {
            ctx.bump("steps_with_tombstones");
        }
        if f.full == f.capacity && f.buckets > 1 {
            ctx.bump("steps_at_full_load");
        }
        ctx.bump(match f.class {
            0 => "class_singleton",
            1 => "class_lt_group",
            2 => "class_eq_group",
            _ => "class_gt_group",
        });
        ctx.max("max_tombstones", f.deleted as u64);
        ctx.max("max_probe_groups", f.max_probe_groups as u64);
        ctx.max("max_buckets", f.buckets as u64);
        if !f.growth_exact {
            ctx.bump("growth_left_conservative");
        }
        ctx.sig_parts(&[validate::state_sig(&f) as u64, crate::ctx::prop_salt(opname)]);
        self.facts = f;
    }

    /// order-independent digest of the contents (for cross-lane transcripts)
    pub fn contents_digest(&self) -> u64 {
        let mut acc = 0u64;
        for (k, v) in self.map.iter() {
            let mut d = Digest::default();
            d.u64(k.id() as u64);
            d.u64(k.gen() as u64);
            d.u64(v.id() as u64);
            d.u64(v.gen() as u64);
            acc = acc.wrapping_add(d.0);
        }
        acc ^ (self.map.len() as u64)
    }

    pub fn describe(&self, universe_note: &str) -> Json {
        let mut j = Json::obj();
        j.set("collection", Json::s("HashMap"));
        j.set("key", Json::s(K::NAME));
        j.set("value", Json::s(V::NAME));
        j.set("plan", Json::s(self.bh.plan.name()));
        j.set("salt", Json::i(self.bh.salt));
        j.set("universe", Json::i(self.universe));
        j.set("note", Json::s(universe_note));
        j
    }
}

/// Picks a plan for a scenario.
pub fn pick_plan(rng: &mut Rng) -> Plan {
    let p = crate::plan::LAWFUL_PLANS;
    // Mixed twice as likely as each adversarial plan
    let i = rng.usize_below(p.len() + 1);
    if i >= p.len() {
        Plan::Mixed
    } else {
        p[i]
    }
}
