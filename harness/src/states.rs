//! State recipes (DESIGN.md §6) over a small collection abstraction, so that
//! capacity/allocation properties can be checked uniformly for HashMap,
//! HashSet and HashTable.

use crate::ckalloc::CkAlloc;
use crate::elem::Elem;
use crate::plan::{plan_hash, KeyRef, Plan, PlanBH};
use crate::tabledrv::hasher_of;
use crate::util::Rng;
use crate::validate::{self, Facts};
use hashbrown::verif::RawDump;
use hashbrown::TryReserveError;

pub type Map<K, V> = hashbrown::HashMap<K, V, PlanBH, CkAlloc>;
pub type Set<T> = hashbrown::HashSet<T, PlanBH, CkAlloc>;
pub type Table<E> = hashbrown::HashTable<E, CkAlloc>;

pub trait Coll: Sized {
    const KIND: &'static str;
    fn elem_name() -> String;
    fn tracked() -> bool;
    /// whether the rayon route is available for this collection
    fn send_elems() -> bool {
        true
    }
    fn id_space() -> u32;
    fn elem_size() -> usize;
    fn with_cap(bh: PlanBH, cap: usize) -> Self;
    fn new_unallocated(bh: PlanBH, how: u8) -> Self;
    fn bh(&self) -> PlanBH;
    /// inserts key `id` (replacing an equal one)
    fn put(&mut self, id: u32, gen: u16);
    fn del(&mut self, id: u32) -> bool;
    fn has(&self, id: u32) -> bool;
    fn len(&self) -> usize;
    fn capacity(&self) -> usize;
    fn alloc_size(&self) -> usize;
    fn dump(&self) -> RawDump;
    /// (id, gen) of every stored element, sorted
    fn contents(&self) -> Vec<(u32, u16)>;
    fn reserve(&mut self, n: usize);
    fn try_reserve(&mut self, n: usize) -> Result<(), TryReserveError>;
    fn shrink_to(&mut self, n: usize);
    fn shrink_to_fit(&mut self);
    fn clear(&mut self);
    /// drains `take` elements, then drops the drain
    fn drain_some(&mut self, take: usize) -> usize;
    fn check_findable(&self, d: &RawDump, f: &mut Facts, ctx: &str);
    /// inserts the (absent) keys `ids` through `Extend`, from an iterator that reports `size_hint() = (lo, hi)`
    /// (collections without `Extend` insert one by one)
    fn extend_hinted(&mut self, ids: &[u32], gen: u16, _lo: usize, _hi: Option<usize>) {
        for id in ids {
            self.put(*id, gen);
        }
    }
    /// inserts the (absent) keys through rayon's `ParallelExtend` (collections without it insert one by one)
    fn par_extend_ids(&mut self, ids: &[u32], gen: u16) {
        for id in ids {
            self.put(*id, gen);
        }
    }

    fn validate(&self, ctx: &str) -> Facts {
        let d = self.dump();
        let mut f = validate::check_safety(&d, ctx);
        if self.bh().plan.is_lawful() {
            self.check_findable(&d, &mut f, ctx);
        }
        crate::check!(self.len() == d.items, "{}: len() {} != items {}", ctx, self.len(), d.items);
        f
    }
}

/// Largest log2(bucket count) the `HugeSparse` recipe may draw. Properties that rebuild the state dozens of times per
/// scenario lower it (every build writes, and every validation reads, all control bytes).
static HUGE_MAX_LG: std::sync::atomic::AtomicU32 = std::sync::atomic::AtomicU32::new(26);
pub fn set_huge_max_lg(lg: u32) {
    HUGE_MAX_LG.store(lg.max(18), std::sync::atomic::Ordering::Relaxed);
}

/// An iterator that yields `inner`'s items but reports the given size hint (a lawful one: lo <= items <= hi).
pub struct Hinted<I> {
    pub inner: I,
    pub lo: usize,
    pub hi: Option<usize>,
}
impl<I: Iterator> Iterator for Hinted<I> {
    type Item = I::Item;
    fn next(&mut self) -> Option<I::Item> {
        let x = self.inner.next();
        if x.is_some() {
            self.lo = self.lo.saturating_sub(1);
            self.hi = self.hi.map(|h| h.saturating_sub(1));
        }
        x
    }
    fn size_hint(&self) -> (usize, Option<usize>) {
        (self.lo, self.hi)
    }
}

pub struct MapC<K: Elem, V: Elem>(pub Map<K, V>);
pub struct SetC<T: Elem>(pub Set<T>);
pub struct TableC<E: Elem>(pub Table<E>, pub PlanBH);

impl<K: Elem, V: Elem> Coll for MapC<K, V> {
    const KIND: &'static str = "HashMap";
    fn elem_name() -> String {
        format!("{}x{}", K::NAME, V::NAME)
    }
    fn tracked() -> bool {
        K::TRACKED || V::TRACKED
    }
    fn id_space() -> u32 {
        K::ID_SPACE
    }
    fn elem_size() -> usize {
        std::mem::size_of::<(K, V)>()
    }
    fn with_cap(bh: PlanBH, cap: usize) -> Self {
        MapC(Map::with_capacity_and_hasher_in(cap, bh, crate::ckalloc::current()))
    }
    fn new_unallocated(bh: PlanBH, how: u8) -> Self {
        crate::plan::set_current(bh.plan, bh.salt);
        MapC(match how % 3 {
            0 => Map::with_hasher_in(bh, crate::ckalloc::current()),
            1 => Map::default(),
            _ => Map::with_capacity_and_hasher_in(0, bh, crate::ckalloc::current()),
        })
    }
    fn bh(&self) -> PlanBH {
        *self.0.hasher()
    }
    fn put(&mut self, id: u32, gen: u16) {
        self.0.insert(K::make(id, gen), V::make(id % V::ID_SPACE, gen));
    }
    fn del(&mut self, id: u32) -> bool {
        self.0.remove(&KeyRef(id)).is_some()
    }
    fn has(&self, id: u32) -> bool {
        self.0.contains_key(&KeyRef(id))
    }
    fn len(&self) -> usize {
        self.0.len()
    }
    fn capacity(&self) -> usize {
        self.0.capacity()
    }
    fn alloc_size(&self) -> usize {
        self.0.allocation_size()
    }
    fn dump(&self) -> RawDump {
        self.0.verif_dump()
    }
    fn contents(&self) -> Vec<(u32, u16)> {
        let mut v: Vec<_> = self
            .0
            .iter()
            .map(|(k, v)| {
                k.check();
                v.check();
                (k.id(), k.gen())
            })
            .collect();
        v.sort();
        v
    }
    fn reserve(&mut self, n: usize) {
        self.0.reserve(n)
    }
    fn try_reserve(&mut self, n: usize) -> Result<(), TryReserveError> {
        self.0.try_reserve(n)
    }
    fn shrink_to(&mut self, n: usize) {
        self.0.shrink_to(n)
    }
    fn shrink_to_fit(&mut self) {
        self.0.shrink_to_fit()
    }
    fn clear(&mut self) {
        self.0.clear()
    }
    fn drain_some(&mut self, take: usize) -> usize {
        let mut d = self.0.drain();
        let mut n = 0;
        for _ in 0..take {
            if let Some((k, v)) = d.next() {
                k.check();
                v.check();
                n += 1;
            }
        }
        n
    }
    fn extend_hinted(&mut self, ids: &[u32], gen: u16, lo: usize, hi: Option<usize>) {
        let items: Vec<(K, V)> = ids.iter().map(|id| (K::make(*id, gen), V::make(*id % V::ID_SPACE, gen))).collect();
        self.0.extend(Hinted { inner: items.into_iter(), lo, hi });
    }
    fn par_extend_ids(&mut self, ids: &[u32], gen: u16) {
        use rayon::prelude::*;
        let items: Vec<(K, V)> = ids.iter().map(|id| (K::make(*id, gen), V::make(*id % V::ID_SPACE, gen))).collect();
        self.0.par_extend(items.into_par_iter());
    }
    fn check_findable(&self, d: &RawDump, f: &mut Facts, ctx: &str) {
        let bh = self.bh();
        let m = &self.0;
        validate::check_findable(d, f, &mut |i| m.verif_bucket(i).map(|(k, _)| bh.hash_of(k.id())), ctx);
    }
}

impl<T: Elem> Coll for SetC<T> {
    const KIND: &'static str = "HashSet";
    fn elem_name() -> String {
        T::NAME.to_string()
    }
    fn tracked() -> bool {
        T::TRACKED
    }
    fn id_space() -> u32 {
        T::ID_SPACE
    }
    fn elem_size() -> usize {
        std::mem::size_of::<T>()
    }
    fn with_cap(bh: PlanBH, cap: usize) -> Self {
        SetC(Set::with_capacity_and_hasher_in(cap, bh, crate::ckalloc::current()))
    }
    fn new_unallocated(bh: PlanBH, how: u8) -> Self {
        crate::plan::set_current(bh.plan, bh.salt);
        SetC(match how % 3 {
            0 => Set::with_hasher_in(bh, crate::ckalloc::current()),
            1 => Set::default(),
            _ => Set::with_capacity_and_hasher_in(0, bh, crate::ckalloc::current()),
        })
    }
    fn bh(&self) -> PlanBH {
        *self.0.hasher()
    }
    fn put(&mut self, id: u32, gen: u16) {
        self.0.replace(T::make(id, gen));
    }
    fn del(&mut self, id: u32) -> bool {
        self.0.remove(&KeyRef(id))
    }
    fn has(&self, id: u32) -> bool {
        self.0.contains(&KeyRef(id))
    }
    fn len(&self) -> usize {
        self.0.len()
    }
    fn capacity(&self) -> usize {
        self.0.capacity()
    }
    fn alloc_size(&self) -> usize {
        self.0.allocation_size()
    }
    fn dump(&self) -> RawDump {
        self.0.verif_dump()
    }
    fn contents(&self) -> Vec<(u32, u16)> {
        let mut v: Vec<_> = self
            .0
            .iter()
            .map(|k| {
                k.check();
                (k.id(), k.gen())
            })
            .collect();
        v.sort();
        v
    }
    fn reserve(&mut self, n: usize) {
        self.0.reserve(n)
    }
    fn try_reserve(&mut self, n: usize) -> Result<(), TryReserveError> {
        self.0.try_reserve(n)
    }
    fn shrink_to(&mut self, n: usize) {
        self.0.shrink_to(n)
    }
    fn shrink_to_fit(&mut self) {
        self.0.shrink_to_fit()
    }
    fn clear(&mut self) {
        self.0.clear()
    }
    fn drain_some(&mut self, take: usize) -> usize {
        let mut d = self.0.drain();
        let mut n = 0;
        for _ in 0..take {
            if let Some(k) = d.next() {
                k.check();
                n += 1;
            }
        }
        n
    }
    fn extend_hinted(&mut self, ids: &[u32], gen: u16, lo: usize, hi: Option<usize>) {
        let items: Vec<T> = ids.iter().map(|id| T::make(*id, gen)).collect();
        self.0.extend(Hinted { inner: items.into_iter(), lo, hi });
    }
    fn check_findable(&self, d: &RawDump, f: &mut Facts, ctx: &str) {
        let bh = self.bh();
        let m = &self.0;
        validate::check_findable(d, f, &mut |i| m.verif_bucket(i).map(|k| bh.hash_of(k.id())), ctx);
    }
}

impl<E: Elem> Coll for TableC<E> {
    const KIND: &'static str = "HashTable";
    fn elem_name() -> String {
        E::NAME.to_string()
    }
    fn tracked() -> bool {
        E::TRACKED
    }
    fn id_space() -> u32 {
        E::ID_SPACE
    }
    fn elem_size() -> usize {
        std::mem::size_of::<E>()
    }
    fn with_cap(bh: PlanBH, cap: usize) -> Self {
        TableC(Table::with_capacity_in(cap, crate::ckalloc::current()), bh)
    }
    fn new_unallocated(bh: PlanBH, how: u8) -> Self {
        TableC(
            match how % 3 {
                0 => Table::new_in(crate::ckalloc::current()),
                1 => Table::default(),
                _ => Table::with_capacity_in(0, crate::ckalloc::current()),
            },
            bh,
        )
    }
    fn bh(&self) -> PlanBH {
        self.1
    }
    fn put(&mut self, id: u32, gen: u16) {
        let h = plan_hash(self.1.plan, self.1.salt, id as u64);
        let hs = hasher_of::<E>(self.1.plan, self.1.salt);
        let _ = self.0.entry(h, |e| e.id() == id, hs).insert(E::make(id, gen));
    }
    fn del(&mut self, id: u32) -> bool {
        let h = plan_hash(self.1.plan, self.1.salt, id as u64);
        match self.0.find_entry(h, |e| e.id() == id) {
            Ok(o) => {
                let _ = o.remove();
                true
            }
            Err(_) => false,
        }
    }
    fn has(&self, id: u32) -> bool {
        let h = plan_hash(self.1.plan, self.1.salt, id as u64);
        self.0.find(h, |e| e.id() == id).is_some()
    }
    fn len(&self) -> usize {
        self.0.len()
    }
    fn capacity(&self) -> usize {
        self.0.capacity()
    }
    fn alloc_size(&self) -> usize {
        self.0.allocation_size()
    }
    fn dump(&self) -> RawDump {
        self.0.verif_dump()
    }
    fn contents(&self) -> Vec<(u32, u16)> {
        let mut v: Vec<_> = self
            .0
            .iter()
            .map(|k| {
                k.check();
                (k.id(), k.gen())
            })
            .collect();
        v.sort();
        v
    }
    fn reserve(&mut self, n: usize) {
        self.0.reserve(n, hasher_of::<E>(self.1.plan, self.1.salt))
    }
    fn try_reserve(&mut self, n: usize) -> Result<(), TryReserveError> {
        self.0.try_reserve(n, hasher_of::<E>(self.1.plan, self.1.salt))
    }
    fn shrink_to(&mut self, n: usize) {
        self.0.shrink_to(n, hasher_of::<E>(self.1.plan, self.1.salt))
    }
    fn shrink_to_fit(&mut self) {
        self.0.shrink_to_fit(hasher_of::<E>(self.1.plan, self.1.salt))
    }
    fn clear(&mut self) {
        self.0.clear()
    }
    fn drain_some(&mut self, take: usize) -> usize {
        let mut d = self.0.drain();
        let mut n = 0;
        for _ in 0..take {
            if let Some(k) = d.next() {
                k.check();
                n += 1;
            }
        }
        n
    }
    fn check_findable(&self, d: &RawDump, f: &mut Facts, ctx: &str) {
        let bh = self.1;
        let m = &self.0;
        validate::check_findable(d, f, &mut |i| m.verif_bucket(i).map(|k| plan_hash(bh.plan, bh.salt, k.id() as u64)), ctx);
    }
}

#[derive(Clone, Copy, Debug, PartialEq, Eq)]
pub enum Recipe {
    Fresh,
    WithCapacity,
    Small,
    OneGroup,
    MultiGroup,
    Full,
    Saturated,
    /// like Saturated but reached by random removals and refills: displaced elements, interleaved tombstones
    SaturatedRandom,
    /// a randomly drawn control-byte layout (runs of FULL / DELETED / EMPTY, displaced elements), see `layout_plan`
    Layout,
    /// a table of 2^18 (sometimes 2^19/2^20) buckets holding a few dozen elements, some removed again:
    /// reaches code that is gated on the table size without needing many elements
    HugeSparse,
    Tombstoned,
    GrownThenShrunk,
    Drained,
    Churned,
}
pub const RECIPES: [Recipe; 13] = [
    Recipe::SaturatedRandom,
    Recipe::Layout,
    Recipe::Fresh,
    Recipe::WithCapacity,
    Recipe::Small,
    Recipe::OneGroup,
    Recipe::MultiGroup,
    Recipe::Full,
    Recipe::Saturated,
    Recipe::Tombstoned,
    Recipe::GrownThenShrunk,
    Recipe::Drained,
    Recipe::Churned,
];

#[derive(Clone, Debug)]
pub struct Spec {
    pub plan: Plan,
    pub salt: u64,
    pub recipe: Recipe,
    pub seed: u64,
}

impl Spec {
    /// Exactly the recipe asked for (no substitution by a huge table).
    pub fn exact(rng: &mut Rng, recipe: Recipe) -> Spec {
        let mut s = Spec::random(rng, recipe);
        if s.recipe != recipe {
            s = Spec { recipe, plan: crate::mapdrv::pick_plan(rng), ..s };
        }
        s
    }
    pub fn random(rng: &mut Rng, recipe: Recipe) -> Spec {
        // one state in 64 is replaced by a very large, sparse table (expensive to build and to validate, hence rare)
        let recipe = if rng.below(64) == 0 && !crate::util::slow_lane() { Recipe::HugeSparse } else { recipe };
        let plan = match recipe {
            // wrap-around at the end of a very large table matters most
            Recipe::HugeSparse => *rng.pick(&[Plan::Tail, Plan::Tail, Plan::Max, Plan::Mixed, Plan::Ident, Plan::SamePos]),
            // a layout is realised through position = id
            Recipe::Layout => *rng.pick(&[Plan::Ident, Plan::Ident, Plan::IdentOneTag]),
            Recipe::Saturated | Recipe::SaturatedRandom | Recipe::Tombstoned if rng.chance(3, 4) => {
                *rng.pick(&[Plan::Ident, Plan::IdentOneTag, Plan::Zero, Plan::SamePos, Plan::Palette(1, 3), Plan::Palette(3, 1), Plan::Palette(4, 4), Plan::Stride, Plan::Tail, Plan::Max])
            }
            _ => crate::mapdrv::pick_plan(rng),
        };
        Spec { plan, salt: rng.next(), recipe, seed: rng.next() }
    }
    pub fn describe(&self) -> String {
        format!("{:?}/{}", self.recipe, self.plan.name())
    }
    pub fn plan_bh(&self) -> PlanBH {
        PlanBH::new(self.plan, self.salt)
    }
}

/// A randomly drawn control-byte layout for a table of 2^lg buckets that is filled to exactly its
/// capacity and then thinned: `inserts` (in order) put one element into every slot that is to be
/// non-EMPTY — some of them displaced by up to 15 slots from their home position — and `deletes`
/// then turn runs of them into tombstones. Requires a plan whose position bits are the id.
pub struct LayoutPlan {
    pub lg: u32,
    pub capacity: usize,
    pub inserts: Vec<u32>,
    pub deletes: Vec<u32>,
}

pub fn layout_plan(rng: &mut Rng, id_space: u32) -> LayoutPlan {
    let lg = *rng.pick(&[5u32, 6, 6, 7]);
    let buckets = 1usize << lg;
    let cap = buckets / 8 * 7;
    let mask = buckets - 1;
    // sequence of slot kinds starting after an EMPTY gap: 0 empty, 1 full, 2 to-be-deleted
    let mut kinds: Vec<u8> = Vec::with_capacity(buckets);
    let mut empties = buckets - cap;
    let mut nonempty = cap;
    let first_gap = 1 + rng.usize_below(empties.min(4));
    kinds.extend(std::iter::repeat(0).take(first_gap));
    empties -= first_gap;
    let p_del = *rng.pick(&[30u64, 50, 60, 75]);
    while nonempty > 0 {
        let len = (*rng.pick(&[1usize, 2, 3, 5, 8, 15, 16, 17, 20, 33])).min(nonempty);
        let kind = if rng.below(100) < p_del { 2 } else { 1 };
        kinds.extend(std::iter::repeat(kind).take(len));
        nonempty -= len;
        if empties > 0 && nonempty > 0 && rng.chance(1, 4) {
            let g = 1 + rng.usize_below(empties.min(3));
            kinds.extend(std::iter::repeat(0).take(g));
            empties -= g;
        }
    }
    kinds.extend(std::iter::repeat(0).take(empties));
    kinds.truncate(buckets);
    let start = rng.usize_below(buckets);
    let mut inserts = Vec::new();
    let mut deletes = Vec::new();
    let mut run_start = 0usize;
    let mut serial = 0u32;
    let usable = (id_space as usize / buckets).max(1) as u32;
    for i in 0..kinds.len() {
        if kinds[i] == 0 {
            run_start = i + 1;
            continue;
        }
        // home: this slot, or (one time in four) an earlier slot of the same non-empty region, at most 15 back
        let back = if rng.chance(1, 4) { rng.usize_below((i - run_start).min(15) + 1) } else { 0 };
        let home = (start + i - back) & mask;
        serial += 1;
        let id = (home as u32).wrapping_add((serial % usable) * buckets as u32) % id_space.max(1);
        if inserts.contains(&id) {
            continue;
        }
        inserts.push(id);
        if kinds[i] == 2 {
            deletes.push(id);
        }
    }
    for i in (1..deletes.len()).rev() {
        deletes.swap(i, rng.usize_below(i + 1));
    }
    LayoutPlan { lg, capacity: cap, inserts, deletes }
}

/// Builds a collection in the state the recipe describes; deterministic in `spec`.
pub fn build<C: Coll>(spec: &Spec) -> C {
    let mut rng = Rng::new(spec.seed);
    let bh = PlanBH::new(spec.plan, spec.salt);
    let space = C::id_space();
    // leave one id of the space unused (an absent key must exist), except for one-value types such as the ZST
    // the Miri lane is ~10^4 times slower: recipe sizes are scaled down there (table classes stay reachable: < / = / > one group)
    let slow = crate::util::slow_lane();
    let lim = |n: u32| {
        let n = if slow { (n / 4).max(3) } else { n };
        if space <= 1 { n.min(1) } else { n.min(space - 1).max(1) }
    };
    let mut gen: u16 = 100;
    let mut g = || {
        gen = gen.wrapping_add(1);
        gen
    };
    match spec.recipe {
        Recipe::Fresh => C::new_unallocated(bh, rng.below(3) as u8),
        Recipe::WithCapacity => C::with_cap(bh, *rng.pick(&[1usize, 3, 4, 7, 8, 14, 15, 28, 29, 56, 100, 448])),
        Recipe::Small => {
            let mut c = C::new_unallocated(bh, 0);
            for id in 0..lim(1 + rng.below(3) as u32) {
                c.put(id, g());
            }
            c
        }
        Recipe::OneGroup => {
            let mut c = C::with_cap(bh, 14);
            for id in 0..lim(3 + rng.below(11) as u32) {
                c.put(id, g());
            }
            c
        }
        Recipe::MultiGroup => {
            let n = lim(*rng.pick(&[20u32, 50, 100, 200]));
            let mut c = C::new_unallocated(bh, 0);
            for id in 0..n {
                c.put(id, g());
            }
            c
        }
        Recipe::Full => {
            let n = *rng.pick(&[3usize, 7, 14, 28, 56, 112]);
            let mut c = C::with_cap(bh, n);
            let cap = (c.capacity() as u32).min(space.saturating_sub(1));
            for id in 0..cap {
                c.put(id, g());
            }
            c
        }
        Recipe::Saturated => {
            let n = lim(*rng.pick(&[28u32, 56, 14, 112]));
            let mut c = C::new_unallocated(bh, 0);
            for id in 0..n {
                c.put(id, g());
            }
            let cap = c.capacity() as u32;
            let mut next = n;
            while (c.len() as u32) < cap && next + 1 < space {
                c.put(next, g());
                next += 1;
            }
            let keep = (cap / 2).saturating_sub(1 + rng.below(3) as u32).max(1);
            let mut id = next;
            while c.len() as u32 > keep && id > 0 {
                id -= 1;
                c.del(id);
            }
            c
        }
        Recipe::SaturatedRandom => {
            let n = lim(*rng.pick(&[28u32, 56, 14, 112]));
            let mut c = C::with_cap(bh, n as usize);
            let cap = c.capacity() as u32;
            let mut next = 0u32;
            let mut live: Vec<u32> = Vec::new();
            while (c.len() as u32) < cap && next + 1 < space {
                c.put(next, g());
                live.push(next);
                next += 1;
            }
            for _round in 0..6 {
                // remove random elements down to below half the capacity
                let keep = (cap / 2).saturating_sub(1 + rng.below(3) as u32).max(1);
                while live.len() as u32 > keep {
                    let i = rng.usize_below(live.len());
                    let id = live.swap_remove(i);
                    c.del(id);
                }
                // refill with fresh keys while the table still promises room
                let mut guard = 0;
                while c.dump().growth_left > 0 && (live.len() as u32) < keep && next + 1 < space && guard < 4 * cap {
                    c.put(next, g());
                    live.push(next);
                    next += 1;
                    guard += 1;
                }
                let d = c.dump();
                if d.growth_left == 0 && (c.len() as u32) <= cap / 2 {
                    break;
                }
                // use up the remaining room, then thin out again
                let mut guard = 0;
                while c.dump().growth_left > 0 && next + 1 < space && guard < 4 * cap {
                    c.put(next, g());
                    live.push(next);
                    next += 1;
                    guard += 1;
                }
            }
            c
        }
        Recipe::HugeSparse => {
            // keep the block below ~16 MiB; element types too large for that (or the Miri lane) get a multi-group table instead
            let mut lg = if rng.chance(1, 4) { *rng.pick(&[21u32, 22, 23, 24, 24, 25, 26]) } else { *rng.pick(&[18u32, 18, 18, 19, 20]) };
            lg = lg.min(HUGE_MAX_LG.load(std::sync::atomic::Ordering::Relaxed));
            while lg > 18 && ((C::elem_size().max(1) + 1) << lg) > (1536 << 20) {
                lg -= 1;
            }
            if slow || ((C::elem_size().max(1) + 1) << lg) > (1536 << 20) {
                let mut c = C::new_unallocated(bh, 0);
                for id in 0..lim(40) {
                    c.put(id, g());
                }
                return c;
            }
            let mut c = C::with_cap(bh, (1usize << lg) / 8 * 7);
            let n = lim(1 + rng.below(40) as u32);
            for id in 0..n {
                c.put(id, g());
            }
            for id in 0..n {
                if rng.chance(1, 3) {
                    c.del(id);
                }
            }
            c
        }
        Recipe::Layout => {
            let lp = layout_plan(&mut rng, space);
            let mut c = C::with_cap(bh, lp.capacity);
            for id in &lp.inserts {
                c.put(*id, g());
            }
            for id in &lp.deletes {
                c.del(*id);
            }
            c
        }
        Recipe::Tombstoned => {
            let n = lim(*rng.pick(&[20u32, 40, 12, 100]));
            let mut c = C::new_unallocated(bh, 0);
            for id in 0..n {
                c.put(id, g());
            }
            for id in (n / 4)..(n / 2) {
                c.del(id);
            }
            c
        }
        Recipe::GrownThenShrunk => {
            let n = lim(*rng.pick(&[60u32, 120, 250]));
            let mut c = C::new_unallocated(bh, 0);
            for id in 0..n {
                c.put(id, g());
            }
            for id in 5.min(n)..n {
                c.del(id);
            }
            if rng.chance(1, 2) {
                c.shrink_to_fit();
            }
            c
        }
        Recipe::Drained => {
            let n = lim(*rng.pick(&[10u32, 30, 100]));
            let mut c = C::new_unallocated(bh, 0);
            for id in 0..n {
                c.put(id, g());
            }
            let take = rng.usize_below(n as usize + 1);
            c.drain_some(take);
            c
        }
        Recipe::Churned => {
            let live = lim(*rng.pick(&[4u32, 10, 20, 40]));
            let mut c = C::new_unallocated(bh, 0);
            let uni = lim(live * 3);
            for _ in 0..(live * 12) {
                let id = rng.below(uni.max(1) as u64) as u32;
                if c.len() as u32 >= live || rng.chance(1, 3) {
                    c.del(id);
                } else {
                    c.put(id, g());
                }
            }
            c
        }
    }
}

/// Instantiates `$f::<C>(args)` for a named collection x element layout.
#[macro_export]
macro_rules! for_coll {
    ($name:expr, $f:ident ( $($arg:expr),* )) => {{
        use $crate::elem::*;
        use $crate::states::{MapC, SetC, TableC};
        match $name {
            "map:P8xP8" => $f::<MapC<P8, P8>>($($arg),*),
            "map:T24xT24" => $f::<MapC<T24, T24>>($($arg),*),
            "map:B1xB1" => $f::<MapC<B1, B1>>($($arg),*),
            "map:B1xZ" => $f::<MapC<B1, Z>>($($arg),*),
            "map:B3xB1" => $f::<MapC<B3, B1>>($($arg),*),
            "map:B3xZ" => $f::<MapC<B3, Z>>($($arg),*),
            "map:L200xB1" => $f::<MapC<L200, B1>>($($arg),*),
            "map:A64xP8" => $f::<MapC<A64, P8>>($($arg),*),
            "map:T24xZ" => $f::<MapC<T24, Z>>($($arg),*),
            "set:T24" => $f::<SetC<T24>>($($arg),*),
            "set:B1" => $f::<SetC<B1>>($($arg),*),
            "set:B2" => $f::<SetC<B2>>($($arg),*),
            "set:B6" => $f::<SetC<B6>>($($arg),*),
            "set:P8" => $f::<SetC<P8>>($($arg),*),
            "set:A64" => $f::<SetC<A64>>($($arg),*),
            "table:T24" => $f::<TableC<T24>>($($arg),*),
            "table:B1" => $f::<TableC<B1>>($($arg),*),
            "table:B3" => $f::<TableC<B3>>($($arg),*),
            "table:P8" => $f::<TableC<P8>>($($arg),*),
            "table:L200" => $f::<TableC<L200>>($($arg),*),
            "map:L600xB1" => $f::<MapC<L600, B1>>($($arg),*),
            "set:L600" => $f::<SetC<L600>>($($arg),*),
            "table:L4K" => $f::<TableC<L4K>>($($arg),*),
            "set:Z" => $f::<SetC<Z>>($($arg),*),
            "table:Z8" => $f::<TableC<Z8>>($($arg),*),
            "map:ZxZ" => $f::<MapC<Z, Z>>($($arg),*),
            other => panic!("unknown collection {}", other),
        }
    }};
}

pub const COLLS: [&str; 23] = [
    "map:P8xP8", "map:T24xT24", "map:B1xB1", "map:B1xZ", "map:B3xB1", "map:B3xZ", "map:L200xB1", "map:A64xP8", "map:T24xZ",
    "set:T24", "set:B1", "set:B2", "set:B6", "set:P8", "set:A64", "table:T24", "table:B1", "table:B3", "table:P8", "table:L200", "map:L600xB1", "set:L600", "table:L4K",
];
