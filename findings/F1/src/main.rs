// Witness for finding F1 (safe code only).
// A `Hash` panic during in-place rehash with a key/value type that has no drop
// glue used to leave `len()` larger than the number of stored elements.
use hashbrown::HashMap;
use std::cell::Cell;
use std::hash::{BuildHasher, Hash, Hasher};
use std::panic::{catch_unwind, AssertUnwindSafe};

thread_local! { static FUSE: Cell<i64> = Cell::new(-1); }

#[derive(PartialEq, Eq, Clone, Copy, Debug)]
struct K(u64);
impl Hash for K {
    fn hash<H: Hasher>(&self, h: &mut H) {
        FUSE.with(|f| {
            let v = f.get();
            if v == 0 {
                f.set(-1);
                panic!("hash fuse");
            }
            if v > 0 {
                f.set(v - 1);
            }
        });
        h.write_u64(self.0)
    }
}
#[derive(Clone, Default)]
struct Ident;
struct IdentH(u64);
impl Hasher for IdentH {
    fn finish(&self) -> u64 { self.0 }
    fn write(&mut self, _: &[u8]) { unreachable!() }
    fn write_u64(&mut self, v: u64) { self.0 = v }
}
impl BuildHasher for Ident {
    type Hasher = IdentH;
    fn build_hasher(&self) -> IdentH { IdentH(0) }
}

fn main() {
    let mut m: HashMap<K, u64, Ident> = HashMap::with_hasher(Ident);
    for i in 0..28 { m.insert(K(i), i); }
    for i in 8..28 { m.remove(&K(i)); }
    assert_eq!(m.len(), 8);
    assert_eq!(m.capacity(), 8); // saturated with tombstones: next insert rehashes in place
    FUSE.with(|f| f.set(3));
    let r = catch_unwind(AssertUnwindSafe(|| { m.insert(K(28), 1); }));
    assert!(r.is_err(), "the armed hash panic must fire inside insert");
    let found = (0..64).filter(|i| m.contains_key(&K(*i))).count();
    println!("len()={} found={}", m.len(), found);
    if m.len() != found {
        println!("F1 PRESENT: len() disagrees with the number of findable elements");
        std::process::exit(1);
    }
    let n = m.iter().count();
    assert_eq!(n, found);
    println!("F1 absent");
}
